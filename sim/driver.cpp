#include "driver.hpp"
#include "model.hpp"
#include <sstream>

namespace sim {

static void root_post_cb(void* ctx, int rep, const Post& p) {
    World* w = (World*)ctx;
    if (rep >= 0 && rep < (int)w->reps.size() && w->reps[rep]) w->reps[rep]->post(p);
}

World::World(const Desc& desc, Maker mk, bool model) : d(&desc), make(mk), is_model(model) {
    env.reset_run(desc.nleaves, (int)desc.states.size());
    env.leaf_is_completion = desc.leaf_is_completion;
    env.latch_on_entry.assign(desc.states.size() + 1, {});
    for (auto& r : desc.rows)
        if (r.trigger == TRIG_COMPLETION && r.guard >= 0 && r.src >= 0) {
            // leaves of this completion row's guard are latched when its source state is entered
            std::vector<int> stack{r.guard};
            while (!stack.empty()) {
                int n = stack.back(); stack.pop_back();
                const DGuardNode& g = desc.gnodes[n];
                if (g.op == 0) env.latch_on_entry[r.src].push_back(g.leaf);
                else { stack.push_back(g.a); if (g.op >= 2) stack.push_back(g.b); }
            }
        }
    env.root_post = &root_post_cb;
    env.root_ctx = this;
}
World::World(const World& o) : d(o.d), env(o.env), started(o.started), moved(o.moved), make(o.make), is_model(o.is_model),
    observe_each(o.observe_each), aborted(o.aborted), abort_msg(o.abort_msg), op_index(o.op_index), ops_done(o.ops_done) {
    for (auto& r : o.reps) reps.emplace_back(r ? r->clone() : nullptr);
    for (size_t i = 0; i < reps.size(); ++i)
        if (reps[i] && is_model) static_cast<Model*>(reps[i].get())->set_rep((int)i);
    env.root_ctx = this;
}

void World::refresh_extents() {
    env.extents.assign(reps.size(), Extent{nullptr, nullptr});
    for (size_t i = 0; i < reps.size(); ++i)
        if (reps[i]) reps[i]->extent(env.extents[i].lo, env.extents[i].hi);
}
int World::add_replica(IMachine* m) {
    reps.emplace_back(m);
    started.push_back(0);
    moved.push_back(0);
    int idx = (int)reps.size() - 1;
    if (is_model && m) static_cast<Model*>(m)->set_rep(idx);
    refresh_extents();
    env.ensure_latch(idx);
    return idx;
}

bool World::machine_active(const Snap& s, int mi) const {
    const DMachine& m = d->machines[mi];
    if (m.parent < 0) return true;
    if (!machine_active(s, m.parent)) return false;
    const DState& ps = d->states[m.parent_state];
    return s.active[m.parent][ps.region] == ps.lib_id;
}

void World::observe_quiescent(int rep) {
    if (rep < 0 || rep >= (int)reps.size() || !reps[rep]) return;
    if (moved[rep]) return;   // the state of a moved-from machine is unspecified (C15: destroy or assign only)
    Snap s;
    bool was = env.enabled;
    env.enabled = false;
    reps[rep]->snapshot(s);
    env.enabled = was;
    for (size_t mi = 0; mi < d->machines.size(); ++mi) {
        if (started[rep] && machine_active(s, (int)mi))
            for (size_t r = 0; r < s.active[mi].size(); ++r)
                env.log_simple(K_SNAP, rep, (int)mi, (int)mi, (int)((r << 16) | (uint32_t)(s.active[mi][r] & 0xffff)));
        env.log_simple(K_Q, rep, (int)mi, (int)mi, (s.qmsg[mi] << 16) | (s.qdef[mi] & 0xffff));
        // the processing flag matters for machines that are part of the active configuration (a machine that
        // is not active does not receive events; its flag is re-initialised when it is entered again)
        if (s.busy[mi] >= 0 && started[rep] && machine_active(s, (int)mi)) env.log_simple(K_BUSY, rep, (int)mi, (int)mi, s.busy[mi]);
        for (size_t r = 0; r < s.hist[mi].size(); ++r)
            env.log_simple(K_HIST, rep, (int)mi, (int)mi, (int)((r << 16) | (uint32_t)(s.hist[mi][r] & 0xffff)));
    }
}
void World::observe_full(int rep) {
    if (rep < 0 || rep >= (int)reps.size() || !reps[rep]) return;
    IMachine& m = *reps[rep];
    bool was = env.enabled;
    env.enabled = false;
    for (size_t mi = 0; mi < d->machines.size(); ++mi)
        for (int f = 0; f < d->nflags; ++f) {
            int v = m.flag((int)mi, f);
            if (v >= 0) env.log_simple(K_FLAG, rep, (int)mi, (f << 8) | (int)mi, v);
        }
    for (size_t g = 0; g < d->states.size(); ++g) {
        int v = m.state_active((int)g);
        if (v >= 0) env.log_simple(K_ACT, rep, d->states[g].machine, (int)g, v);
    }
    for (int mode = 0; mode < 4; ++mode) {
        std::vector<int> out;
        if (m.visit(mode, out))
            for (int g : out) env.log_simple(K_VIS, rep, mode, g, mode);
    }
    for (size_t mi = 0; mi < d->machines.size(); ++mi)
        for (size_t id = 0; id < d->machines[mi].states.size(); ++id) {
            int g = m.state_by_id((int)mi, (int)id);
            if (g != -2) env.log_simple(K_ACT, rep, (int)mi, 1000 + (int)id, g);
        }
    for (size_t g = 0; g < d->states.size(); ++g)
        if (d->states[g].has_data) env.log_simple(K_DATA, rep, d->states[g].machine, (int)g, m.state_data((int)g));
    env.enabled = was;
}

void World::exec(const Op& op, int idx) {
    if (aborted) return;
    set_env(&env);
    env.begin_op();
    env.gv = op.gv;
    if ((int)env.gv.size() < d->nleaves) env.gv.resize(d->nleaves, 1);
    env.posts = op.posts;
    env.throws = op.throws;
    env.cond = op.cond;
    if ((int)op_index.size() <= idx) op_index.resize(idx + 1, env.trace.size());
    op_index[idx] = env.trace.size();
    env.log_simple(K_OP, op.on, -1, idx, op.kind);
    int on = op.on;
    if (reps.empty()) add_replica(make(0));
    if (on < 0 || on >= (int)reps.size() || !reps[on]) { ++ops_done; return; } // op on a missing replica: no-op
    IMachine& m = *reps[on];
    if (moved[on] && op.kind != OP_ASSIGN && op.kind != OP_MOVE_ASSIGN && op.kind != OP_DESTROY) { ++ops_done; return; }
    if ((op.kind == OP_ASSIGN || op.kind == OP_MOVE_ASSIGN) && op.other >= 0 && op.other < (int)reps.size() && moved[op.other]) { ++ops_done; return; }
    // API preconditions (the properties quantify over histories between start() and stop()): an op that
    // violates them -- only minimisation can produce one -- is a no-op
    if (op.kind == OP_START && started[on]) { ++ops_done; return; }
    if (!started[on] && (op.kind == OP_STOP || op.kind == OP_PROCESS || op.kind == OP_SUBPROCESS || op.kind == OP_ENQUEUE ||
                         op.kind == OP_DEFER || op.kind == OP_DRAIN || op.kind == OP_DRAIN1)) { ++ops_done; return; }
    try {
        switch (op.kind) {
            case OP_START: m.start(); started[on] = 1; break;
            case OP_STOP: m.stop(); started[on] = 0; break;
            case OP_PROCESS: { int r = m.process(op.ev, op.occ); env.log_simple(K_RET, on, 0, idx, r); break; }
            case OP_SUBPROCESS: { int r = m.sub_process(op.other, op.ev, op.occ); env.log_simple(K_RET, on, op.other, idx, r); break; }
            case OP_ENQUEUE: m.enqueue(op.ev, op.occ); break;
            case OP_DEFER: m.defer(op.ev, op.occ); break;
            case OP_DRAIN: m.drain(); break;
            case OP_DRAIN1: m.drain_one(); break;
            case OP_COPY: {
                env.enabled = false;
                IMachine* c = m.clone();
                env.enabled = true;
                int n = add_replica(c);
                started[n] = started[on];
                env.copy_latches(on, n);
                break;
            }
            case OP_ASSIGN: {
                if (op.other >= 0 && op.other < (int)reps.size() && reps[op.other] && op.other != on) {
                    env.enabled = false;
                    m.assign_from(*reps[op.other]);
                    env.enabled = true;
                    started[on] = started[op.other];
                    moved[on] = 0;
                    env.copy_latches(op.other, on);
                    refresh_extents();
                }
                break;
            }
            case OP_MOVE: {
                env.enabled = false;
                IMachine* c = m.move_out();
                env.enabled = true;
                if (c) {
                    int n = add_replica(c);
                    started[n] = started[on];
                    env.copy_latches(on, n);
                    // the moved-from machine stays around: it may only be destroyed or assigned to
                    started[on] = 0;
                    moved[on] = 1;
                }
                break;
            }
            case OP_MOVE_ASSIGN: {
                if (op.other >= 0 && op.other < (int)reps.size() && reps[op.other] && op.other != on) {
                    env.enabled = false;
                    bool ok = m.move_assign_from(*reps[op.other]);
                    env.enabled = true;
                    if (ok) {
                        started[on] = started[op.other];
                        started[op.other] = 0;
                        moved[on] = 0;
                        moved[op.other] = 1;
                        env.copy_latches(op.other, on);
                    }
                }
                break;
            }
            case OP_SAVELOAD: {
                std::string bytes;
                env.enabled = false;
                bool ok = m.save(op.arg & 1, bytes);
                env.enabled = true;
                if (ok) {
                    env.enabled = false;
                    IMachine* fresh = make(op.val ? (int)reps.size() : on);
                    fresh->load(op.arg & 1, bytes);
                    env.enabled = true;
                    if (op.val) {           // keep the original, the restored machine becomes a new replica
                        int n = add_replica(fresh);
                        started[n] = started[on];
                        env.copy_latches(on, n);
                    } else {                // crash-restart: only the archive survives
                        env.enabled = false;
                        reps[on].reset(fresh);
                        env.enabled = true;
                        if (is_model) static_cast<Model*>(fresh)->set_rep(on);
                        refresh_extents();
                    }
                }
                break;
            }
            case OP_CLEARQ: m.clear_queue(op.arg); break;
            case OP_DESTROY: {
                env.enabled = false;
                reps[on].reset();
                env.enabled = true;
                started[on] = 0;
                refresh_extents();
                break;
            }
            case OP_OBSERVE: observe_full(on); break;
            case OP_SETDATA: m.set_state_data(op.arg, op.val); break;
        }
    } catch (AssertFailed& a) {
        env.enabled = true;
        aborted = true;
        abort_msg = a.msg;
        env.log_simple(K_ESC, on, -1, idx, 1);
        return;
    } catch (std::exception&) {
        env.enabled = true;
        env.log_simple(K_ESC, on, -1, idx, 0);      // C12: an exception escaped the API
    }
    for (size_t r = 0; r < reps.size(); ++r) observe_quiescent((int)r);
    log_live();
    if (observe_each) for (size_t r = 0; r < reps.size(); ++r) if (started[r]) observe_full((int)r);
    ++ops_done;
}

void World::log_live() {
    if (!d->tracked) return;
    if (is_model) {
        long n = 0;
        for (auto& r : reps) if (r) n += r->live_tracked();
        env.log_simple(K_LIVE, -1, -1, 0, (int)n);
        env.log_simple(K_LIVE, -1, -1, 1, 0);
    } else {
        env.log_simple(K_LIVE, -1, -1, 0, (int)registry().live.size());
        env.log_simple(K_LIVE, -1, -1, 1, (int)registry().errors);
    }
}
void World::run(const Plan& p) {
    if (!is_model) registry().reset();
    for (size_t i = 0; i < p.ops.size(); ++i) exec(p.ops[i], (int)i);
    if (d->tracked && !aborted) {
        // C20: when every machine of the run is gone, every stored copy must be gone too
        set_env(&env);
        env.enabled = false;
        for (auto& r : reps) r.reset();
        env.enabled = true;
        refresh_extents();
        log_live();
    }
    set_env(nullptr);
}

// ------------------------------------------------------------------------------------------ comparison
Divergence compare_traces(const World& real, const World& model) {
    Divergence dv;
    const auto& a = real.env.trace;
    const auto& b = model.env.trace;
    size_t n = std::min(a.size(), b.size());
    size_t i = 0;
    for (; i < n; ++i) if (a[i] != b[i]) break;
    if (i == n && a.size() == b.size() && !real.aborted) return dv;
    dv.diverged = true;
    dv.index = i;
    for (size_t k = 0; k < real.op_index.size(); ++k) if (real.op_index[k] <= i) dv.op = (int)k;
    if (real.aborted && i == n) dv.why = "library assertion: " + real.abort_msg;
    return dv;
}
uint64_t trace_hash(const std::vector<Rec>& t) {
    uint64_t h = 1469598103934665603ull;
    auto mixin = [&](uint64_t v) { h ^= v; h *= 1099511628211ull; };
    for (auto& r : t) {
        mixin(r.kind); mixin((uint8_t)r.rep); mixin((uint8_t)r.mach); mixin((uint16_t)r.site); mixin((uint16_t)r.evtype);
        mixin((uint32_t)r.occ); mixin(r.chk); mixin((uint32_t)r.val); mixin(r.obs);
    }
    return h;
}
std::string rec_to_string(const Desc& d, const Rec& r) {
    std::ostringstream os;
    os << kind_name(r.kind);
    auto sname = [&](int s) -> std::string {
        if (s >= 0 && s < (int)d.states.size()) return d.states[s].name;
        if (s == (int)d.states.size()) return d.machines[0].name + "(root)";
        return "?" + std::to_string(s);
    };
    switch (r.kind) {
        case K_G: os << " g" << r.site << "=" << r.val; break;
        case K_A: os << " a" << r.site; break;
        case K_N: case K_X: os << " " << sname(r.site); if (r.val) os << " FOREIGN_STATE_OBJECT(" << r.val << ")"; break;
        case K_NT: os << " machine=" << r.site << " state_id=" << r.val; break;
        case K_EC: os << " machine=" << r.site; break;
        case K_POST: os << " api=" << r.site << (r.val ? " to=root" : " to=fsm"); break;
        case K_RET: os << " code=" << r.val; break;
        case K_SNAP: os << " m" << r.site << " region" << (r.val >> 16) << "=id" << (r.val & 0xffff); break;
        case K_HIST: os << " m" << r.site << " region" << (r.val >> 16) << "=id" << (r.val & 0xffff); break;
        case K_Q: os << " m" << r.site << " msg=" << (r.val >> 16) << " def=" << (r.val & 0xffff); break;
        case K_OP: os << " #" << r.site << " " << op_name((uint8_t)r.val); break;
        case K_FLAG: os << " m" << (r.site & 0xff) << " flag" << (r.site >> 8) << " or=" << (r.val & 1) << " and=" << ((r.val >> 1) & 1); break;
        case K_VIS: os << " mode" << r.val << " " << sname(r.site); break;
        case K_ACT: os << " " << r.site << "=" << r.val; break;
        case K_BUSY: os << " m" << r.site << "=" << r.val; break;
        default: os << " site=" << r.site << " val=" << r.val;
    }
    if (r.kind <= K_THROW) {
        os << " [rep" << (int)r.rep << " m" << (int)r.mach;
        if (r.kind != K_THROW) {
            os << " ev=";
            if (r.evtype >= 0 && r.evtype < (int)d.events.size()) os << d.events[r.evtype].name; else os << r.evtype;
            os << " occ=" << r.occ;
            if (r.kind != K_POST) { char b[16]; snprintf(b, sizeof b, "%08x", r.obs); os << " obs=" << b; }
        }
        os << "]";
    } else os << " [rep" << (int)r.rep << "]";
    return os.str();
}
JV rec_to_json(const Rec& r) {
    JV a = JV::arr();
    a.push(kind_name(r.kind)); a.push((int)r.rep); a.push((int)r.mach); a.push((int)r.site); a.push((int)r.evtype);
    a.push((int)r.occ); a.push((long long)r.chk); a.push((int)r.val); a.push((long long)r.obs);
    return a;
}

} // namespace sim
