// sim/genplan.hpp -- seeded plan generation (profiles = what a property's workload may contain)
#pragma once
#include "driver.hpp"
#include "model.hpp"
#include "plan.hpp"

namespace sim {

struct Profile {
    std::string name;
    int min_ops = 4, max_ops = 14;
    // relative weights of op kinds (0 = disabled)
    int w_process = 10, w_enqueue = 0, w_drain = 0, w_drain1 = 0, w_defer = 0, w_stopstart = 0;
    int w_copy = 0, w_assign = 0, w_move = 0, w_saveload = 0, w_clearq = 0, w_destroy = 0, w_observe = 0, w_sub = 0;
    int w_setdata = 0;
    double post_rate = 0.0;      // probability that an op carries posts
    int max_posts = 3;
    bool post_root = false, post_enqueue = true, post_defer = false;
    bool post_cleardef = false;     // some submissions are clear_deferred_queue() calls (lockstep jobs on back / back11 only)
    bool post_in_start = false;
    bool post_enqueue_sub = true;  // enqueue_event aimed at a nested machine (unhandled ones are reported by backmp11 only)
    bool stop_when_drained = false; // stop() only with empty queues (what happens to pending events over stop/start is back-end specific)
    bool fault_on_completion_guard = true; // posts / throws attached to evaluations of completion-row guards
    bool post_sub = true;           // submissions aimed at nested machines (pending ones survive an aborted entry in back only)
    bool strict_model = false;      // model without the quirks tied to known findings (dedicated jobs that demonstrate them)
    bool allow_reentrant = false; // posts via process_event to a machine that is not marked as processing (known finding KF-1)
    double throw_rate = 0.0;     // probability that an op carries a throw
    int max_throws = 1;
    bool observe_each = false;
    bool cond_defer = false;
    int max_replicas = 3;
    bool saveload_keep = true;   // restored machine may become an additional replica
};

const Profile& profile_by_name(const std::string& n);
std::vector<std::string> profile_names();

Dialect dialect_of(const Variant& v);
Plan generate_plan(const Desc& d, const Variant& v, const Profile& pf, uint64_t seed);

} // namespace sim
