// sim/core.hpp -- the simulated environment ("Env") every generated behaviour calls into.
// Everything nondeterministic about a run (guard results, re-entrant submissions, injected
// exceptions) is decided here from the explicit, positional plan of the current op.
// Both the real msm machines (through generated functors) and the reference model call the very
// same Env::begin(), so their traces are comparable record by record.
#pragma once
#include <cstdint>
#include <cstdio>
#include <cstring>
#include <map>
#include <stdexcept>
#include <string>
#include <vector>

namespace sim {

// ---------------------------------------------------------------------------------------------
// record kinds
enum Kind : uint8_t {
    K_G = 0,    // guard leaf evaluated            site = guard leaf id, val = result
    K_X = 1,    // state exit behaviour            site = global state index
    K_A = 2,    // transition action               site = action id
    K_N = 3,    // state entry behaviour           site = global state index
    K_NT = 4,   // no_transition                   site = machine index, val = reported state id
    K_EC = 5,   // exception_caught                site = machine index
    K_POST = 6, // re-entrant submission performed site = api, val = target(0 fsm,1 root)
    K_THROW = 7,// injected exception thrown       (follows the record of the throwing behaviour)
    K_RET = 8,  // return code of an external op   val = code
    K_SNAP = 9, // active state id of one region   site = machine index, val = region<<16 | id
    K_Q = 10,   // queue sizes                     site = machine index, val = msg<<16 | deferred
    K_OP = 11,  // start of an op                  site = op index, val = op kind
    K_FLAG = 12,// flag query answer               site = flag<<8|machine, val = or | and<<1
    K_VIS = 13, // visitor visited a state         site = global state index
    K_HIST = 14,// history memory (probe)          site = machine index, val = region<<16 | id
    K_ACT = 15, // is_state_active answer          site = global state index, val = 0/1
    K_DATA = 16,// serialisable state data         site = global state index, val = data
    K_ESC = 17, // exception escaped the API       site = op index
    K_LIVE = 18,// live stored event instances     val = count
    K_BUSY = 19,// m_event_processing at quiescence site = machine index, val
};
inline const char* kind_name(uint8_t k) {
    static const char* n[] = {"G", "X", "A", "N", "NT", "EC", "POST", "THROW", "RET", "SNAP",
                              "Q", "OP", "FLAG", "VIS", "HIST", "ACT", "DATA", "ESC", "LIVE", "BUSY"};
    return k < sizeof(n) / sizeof(n[0]) ? n[k] : "?";
}

// pseudo occurrence ids
enum : int32_t { OCC_NONE = -1, OCC_START = -2, OCC_STOP = -3, OCC_UNKNOWN = -9 };
// pseudo event type indices (real event types are 0..n-1)
enum : int16_t { EV_NONE = -1, EV_START = -2, EV_STOP = -3, EV_UNKNOWN = -9 };

struct EvInfo {
    int32_t occ = OCC_UNKNOWN;
    int16_t type = EV_UNKNOWN; // static type index the behaviour was instantiated with
    int16_t dyn = EV_UNKNOWN;  // dynamic type found inside a Kleene `any` (== type otherwise)
    uint32_t chk = 0;          // payload checksum as read from the object
};

struct Rec {
    uint8_t kind = 0;
    int8_t rep = -1;   // replica owning the fsm argument (by address range), -1 = none
    int8_t mach = -1;  // machine index (static) of the fsm argument
    int16_t site = 0;
    int16_t evtype = EV_UNKNOWN;
    int16_t evdyn = EV_UNKNOWN;
    int32_t occ = OCC_UNKNOWN;
    uint32_t chk = 0;
    int32_t val = 0;
    uint32_t obs = 0xffffffffu; // active ids of the fsm argument as observed inside the behaviour
    uint8_t aux = 0;            // model only, never compared: bit0 = fsm argument is processing, bit1 = root is processing
    bool operator==(const Rec& o) const {
        return kind == o.kind && rep == o.rep && mach == o.mach && site == o.site &&
               evtype == o.evtype && evdyn == o.evdyn && occ == o.occ && chk == o.chk &&
               val == o.val && obs == o.obs;
    }
    bool operator!=(const Rec& o) const { return !(*this == o); }
};

inline uint32_t chk_of_occ(int32_t occ) {
    uint32_t x = (uint32_t)occ * 2654435761u + 0x9e3779b9u;
    x ^= x >> 15; x *= 0x85ebca6bu; x ^= x >> 13;
    return x;
}

// ---------------------------------------------------------------------------------------------
// plan pieces decided per op
enum Api : uint8_t { API_PROCESS = 0, API_ENQUEUE = 1, API_DEFER = 2,
                     API_CLEARDEF = 3 };   // clear_deferred_queue() called from inside a behaviour (back / back11; a no-op for backmp11)

struct Post {
    uint8_t cb = 0;     // callback kind (K_G..K_EC)
    int16_t site = 0;
    int16_t nth = 0;    // nth occurrence of (cb,site) within the op (0-based)
    uint8_t api = API_PROCESS;
    uint8_t to_root = 0;
    int16_t ev = 0;     // event type
    int32_t occ = 0;    // occurrence id (unique per run)
    bool fired = false;
};
struct Throw {
    uint8_t cb = 0;
    int16_t site = 0;
    int16_t nth = 0;
    bool fired = false;
};

struct Injected : std::runtime_error {
    Injected() : std::runtime_error("sim injected fault") {}
};

struct Cb {
    bool value = true;    // guard result
    bool do_throw = false;
    int npost = 0;
    Post* posts[4];
};

// address range registry: replica -> [lo,hi)
struct Extent { const char* lo; const char* hi; };

struct Env;
typedef void (*RootPostFn)(void* ctx, int rep, const Post& p);
typedef void (*LatchFn)(void* ctx, Env& env, int rep, int state_site);

struct Env {
    // ---- decisions of the current op
    std::vector<uint8_t> gv;        // value per guard leaf for this op
    std::vector<Post> posts;
    std::vector<Throw> throws;
    uint32_t cond = 0;              // conditional-deferral decision bits for this op
    bool cond_bit(int k) const { return (cond >> k) & 1u; }
    // completion-guard latches: per replica, per guard leaf: -1 not latched, else value
    std::vector<std::vector<int8_t>> latch;
    std::vector<uint8_t> leaf_is_completion; // per guard leaf
    // entry of state s latches which leaves (global state index -> leaves)
    std::vector<std::vector<int>> latch_on_entry;
    // ---- bookkeeping
    std::map<uint32_t, int> nth;    // (kind<<16|site) -> count within op
    std::vector<Rec> trace;
    std::vector<Extent> extents;    // per replica (real machines only; model passes rep directly)
    RootPostFn root_post = nullptr;
    void* root_ctx = nullptr;
    bool enabled = true;            // false while constructing / probing
    int depth = 0;
    uint8_t cur_aux = 0;
    long behaviour_calls = 0;
    // stats of fired faults
    long fired_posts = 0, fired_throws = 0;

    void reset_run(int nleaves, int nstates) {
        gv.assign(nleaves, 1);
        posts.clear(); throws.clear();
        latch.clear();
        nth.clear(); trace.clear(); extents.clear();
        behaviour_calls = 0; fired_posts = fired_throws = 0;
        (void)nstates;
    }
    void begin_op() { nth.clear(); }

    int replica_of(const void* p) const {
        const char* c = (const char*)p;
        for (size_t i = 0; i < extents.size(); ++i)
            if (extents[i].lo && c >= extents[i].lo && c < extents[i].hi) return (int)i;
        return -1;
    }
    void ensure_latch(int rep) {
        if (rep < 0) return;
        if ((int)latch.size() <= rep) latch.resize(rep + 1);
        if (latch[rep].size() != gv.size()) latch[rep].assign(gv.size(), -1);
    }
    void copy_latches(int from, int to) {
        ensure_latch(from); ensure_latch(to);
        latch[to] = latch[from];
    }

    void log(const Rec& r) { trace.push_back(r); }

    // The single entry point for every behaviour invocation (real and model).
    Cb begin(uint8_t kind, int site, int rep, int mach, const EvInfo& ev, uint32_t obs, int val_in = 0) {
        Cb cb;
        ++behaviour_calls;
        if (kind == K_N && rep >= 0 && site >= 0 && site < (int)latch_on_entry.size() &&
            !latch_on_entry[site].empty()) {
            ensure_latch(rep);
            for (int leaf : latch_on_entry[site]) latch[rep][leaf] = (int8_t)gv[leaf];
        }
        if (kind == K_G) {
            bool v = site < (int)gv.size() ? gv[site] != 0 : true;
            if (site < (int)leaf_is_completion.size() && leaf_is_completion[site] && rep >= 0) {
                ensure_latch(rep);
                if (latch[rep][site] >= 0) v = latch[rep][site] != 0;
                else latch[rep][site] = (int8_t)v;
            }
            cb.value = v;
            val_in = v;
        }
        Rec r;
        r.kind = kind; r.rep = (int8_t)rep; r.mach = (int8_t)mach; r.site = (int16_t)site;
        r.evtype = ev.type; r.evdyn = ev.dyn; r.occ = ev.occ; r.chk = ev.chk; r.val = val_in; r.obs = obs; r.aux = cur_aux;
        trace.push_back(r);
        uint32_t key = ((uint32_t)kind << 16) | (uint16_t)site;
        int n = nth[key]++;
        for (auto& p : posts)
            if (p.cb == kind && p.site == site && p.nth == n && cb.npost < 4) cb.posts[cb.npost++] = &p;
        for (auto& t : throws)
            if (t.cb == kind && t.site == site && t.nth == n) { cb.do_throw = true; t.fired = true; }
        return cb;
    }
    void log_post(const Post& p, int rep, int mach) {
        Rec r; r.kind = K_POST; r.rep = (int8_t)rep; r.mach = (int8_t)mach; r.site = p.api;
        r.evtype = p.ev; r.evdyn = p.ev; r.occ = p.occ; r.chk = chk_of_occ(p.occ); r.val = p.to_root; r.obs = 0;
        trace.push_back(r);
        ++fired_posts;
    }
    void log_throw(int rep, int mach) {
        Rec r; r.kind = K_THROW; r.rep = (int8_t)rep; r.mach = (int8_t)mach; r.obs = 0;
        trace.push_back(r);
        ++fired_throws;
    }
    void log_simple(uint8_t kind, int rep, int mach, int site, int val) {
        Rec r; r.kind = kind; r.rep = (int8_t)rep; r.mach = (int8_t)mach; r.site = (int16_t)site; r.val = val; r.obs = 0;
        r.evtype = EV_NONE; r.evdyn = EV_NONE; r.occ = OCC_NONE;
        trace.push_back(r);
    }
};

// ---------------------------------------------------------------------------------------------
// instance registry of the tracked event classes (C20): every construction / destruction of an event
// object of a tracked class goes through here, whoever performs it (the library's queues included)
struct EvRegistry {
    std::map<const void*, int32_t> live;
    long constructed = 0, destroyed = 0, errors = 0;
    std::string first_error;
    void reset() { live.clear(); constructed = destroyed = errors = 0; first_error.clear(); }
    void error(const char* what, const void* p) {
        if (!errors) { char b[96]; snprintf(b, sizeof b, "%s at %p", what, p); first_error = b; }
        ++errors;
    }
    void ctor(const void* p, int32_t occ) {
        ++constructed;
        if (!live.emplace(p, occ).second) error("construction over a live instance", p);
    }
    void dtor(const void* p) {
        ++destroyed;
        if (!live.erase(p)) error("destruction of an object that is not alive (double destroy / never constructed)", p);
    }
    bool is_live(const void* p) const { return live.count(p) != 0; }
};
EvRegistry& registry();

Env& env(); // the Env the currently running machine (real or model) talks to
void set_env(Env* e);

} // namespace sim
