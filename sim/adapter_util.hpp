// sim/adapter_util.hpp -- helpers shared by the generated adapters (header-only, templates only).
#pragma once
#include "core.hpp"
#include "imachine.hpp"
#include <array>
#include <type_traits>
#include <vector>

namespace sim {

template <class F, class E>
inline void post_api(F& f, E& x, int api) {   // non-const: back11 cannot dispatch const events through chain rows
    if (api == API_PROCESS) f.process_event(x);
    else if (api == API_ENQUEUE) f.enqueue_event(x);
    else if (api == API_CLEARDEF) {
        if constexpr (F::SIM_CAN_DEFER && requires { f.clear_deferred_queue(); }) f.clear_deferred_queue();
    } else {
        if constexpr (F::SIM_CAN_DEFER) f.defer_event(x);
    }
}

// ---- probe "archive" for back / back11: driven through the public serialize() of the machine.
// Records the primitive members in the order the library hands them over; only this level.
struct BackProbe {
    int nr = 0;
    int depth = 0;
    std::vector<std::vector<int>> arrays0, arrays1;
    std::vector<int> bools0;
    typedef boost::mpl::bool_<true> is_saving;   // looks like an output archive
    typedef boost::mpl::bool_<false> is_loading;

    template <class T>
    BackProbe& operator&(T& t) {
        using U = std::remove_cv_t<T>;
        if constexpr (std::is_array_v<U>) {
            std::vector<int> v;
            for (auto& x : t) v.push_back((int)x);
            if (depth == 0) arrays0.push_back(v);
            else if (depth == 1) arrays1.push_back(v);
        } else if constexpr (std::is_same_v<U, bool>) {
            if (depth == 0) bools0.push_back(t ? 1 : 0);
        } else if constexpr (std::is_arithmetic_v<U>) {
            // state data: not needed here
        } else if constexpr (requires { typename U::composite_tag; }) {
            // nested machine: probed separately
        } else if constexpr (requires { t.serialize(*this, 0u); }) {
            ++depth;
            const_cast<U&>(t).serialize(*this, 0u);
            --depth;
        }
        return *this;
    }
    template <class T>
    BackProbe& operator&(const T& t) { return (*this) & const_cast<T&>(t); }
    // raw blocks (boost::serialization::binary_object and the like): accepted and ignored, the probe only wants the typed members
    void save_binary(const void*, std::size_t) {}
    void load_binary(void*, std::size_t) {}
    int busy() const { return bools0.size() >= 1 ? bools0[0] : -1; }
    std::vector<int> hist() const { return arrays1.empty() ? std::vector<int>() : arrays1.back(); }
};

struct MpProbe {
    int busy = -1, running = -1;
    std::vector<int> hist;
    std::vector<int> active;
};

} // namespace sim

#ifdef SIM_MP11
namespace sim {
// backmp11 machine exposing the number of pending (not yet consumed) pool entries
template <class FrontEnd, class Config>
class MpMachine : public boost::msm::backmp11::state_machine<FrontEnd, Config, MpMachine<FrontEnd, Config>> {
    using base = boost::msm::backmp11::state_machine<FrontEnd, Config, MpMachine<FrontEnd, Config>>;
  public:
    using base::base;
    size_t sim_pending() const {
        size_t n = 0;
        for (auto& e : this->get_event_pool().events)
            if (!(*e).marked_for_deletion()) ++n;
        return n;
    }
    void sim_clear_pool() { this->get_event_pool().events.clear(); }
};
} // namespace sim

// the documented back door: friend void serialize(T&, state_machine_base<...>&)
namespace boost::msm::backmp11::detail {
template <typename T, typename U>
void serialize(T& ar, history_impl<front::no_history, U>&) { ar.hist.clear(); }
template <typename T, typename U>
void serialize(T& ar, history_impl<front::always_shallow_history, U>& h) {
    ar.hist.assign(h.m_last_active_state_ids.begin(), h.m_last_active_state_ids.end());
}
template <typename T, typename... Es, typename U>
void serialize(T& ar, history_impl<front::shallow_history<Es...>, U>& h) {
    ar.hist.assign(h.m_last_active_state_ids.begin(), h.m_last_active_state_ids.end());
}
template <typename T, typename A0, typename A1, typename A2>
void serialize(T& ar, state_machine_base<A0, A1, A2>& sm) {
    ar.busy = sm.m_event_processing ? 1 : 0;
    ar.running = sm.m_running ? 1 : 0;
    ar.active.assign(sm.m_active_state_ids.begin(), sm.m_active_state_ids.end());
    serialize(ar, sm.m_history);
}
} // namespace boost::msm::backmp11::detail
#endif
