// sim/main.cpp -- worker executable: one per spec, all variants linked in.
//   run     --variant V --profile P --seed S --count N [--start I]   lockstep real vs model
//   replay  --file F                                                  re-execute a replay file
//   dump    --variant V --profile P --seed S --index I                print plan and traces
//   list                                                              variants / profiles
#include "driver.hpp"
#include "genplan.hpp"
#include "model.hpp"
#include "oracle.hpp"
#include <chrono>
#include <cstdio>
#include <cstring>
#include <fstream>
#include <iostream>
#include <set>
#include <sstream>

#if defined(__SANITIZE_ADDRESS__)
#include <sanitizer/lsan_interface.h>
#define SIM_ASAN 1
extern "C" __attribute__((used)) const char* __asan_default_options() { return "exitcode=77:detect_leaks=1:abort_on_error=0"; }
#endif

using namespace sim;

static const Variant* find_variant(const std::string& n) {
    for (auto& v : variants()) if (v.name == n) return &v;
    return nullptr;
}
static std::string arg(int argc, char** argv, const char* name, const char* dflt = "") {
    for (int i = 1; i + 1 < argc; ++i) if (!strcmp(argv[i], name)) return argv[i + 1];
    return dflt;
}
static bool has_flag(int argc, char** argv, const char* name) {
    for (int i = 1; i < argc; ++i) if (!strcmp(argv[i], name)) return true;
    return false;
}

static void print_trace_window(const Desc& d, const World& real, const World& model, size_t at, int before, int after) {
    size_t lo = at > (size_t)before ? at - before : 0;
    size_t hi = at + after;
    for (size_t i = lo; i < hi; ++i) {
        std::string a = i < real.env.trace.size() ? rec_to_string(d, real.env.trace[i]) : "-";
        std::string b = i < model.env.trace.size() ? rec_to_string(d, model.env.trace[i]) : "-";
        printf("%c %4zu  real: %-58s model: %s\n", i == at ? '>' : ' ', i, a.c_str(), b.c_str());
    }
}

// a hard fault of the real code (SIGSEGV, SIGBUS, SIGFPE, SIGILL, abort) while a plan is executed: print that plan and leave
// with exit code 79; the check turns it into a violation whose replay file is this plan (sanitizer builds report themselves)
static char g_inflight[1 << 16];
static size_t g_inflight_len = 0;
static void set_inflight(const Plan& plan) {
    std::string s = plan_to_json(plan).dump();
    g_inflight_len = s.size() < sizeof g_inflight ? s.size() : 0;
    memcpy(g_inflight, s.data(), g_inflight_len);
}
#ifndef SIM_ASAN
#include <csignal>
#include <unistd.h>
static void on_fatal_signal(int) {
    fflush(stdout);
    ssize_t r = write(1, "\nCRASH ", 7); (void)r;
    r = write(1, g_inflight, g_inflight_len); (void)r;
    r = write(1, "\n", 1); (void)r;
    _exit(79);
}
static void install_fatal_handlers() {
    for (int sig : {SIGSEGV, SIGBUS, SIGFPE, SIGILL, SIGABRT}) signal(sig, on_fatal_signal);
}
#else
static void install_fatal_handlers() {}
#endif

int main(int argc, char** argv) {
    install_fatal_handlers();
    if (argc < 2) { fprintf(stderr, "usage: run|replay|dump|list ...\n"); return 2; }
    std::string cmd = argv[1];
    const Desc& d = desc();
    if (cmd == "list") {
        JV j = JV::obj();
        JV vs = JV::arr();
        for (auto& v : variants()) vs.push(v.name);
        j.set("spec", d.name); j.set("variants", vs);
        JV ps = JV::arr();
        for (auto& p : profile_names()) ps.push(p);
        j.set("profiles", ps);
        printf("%s\n", j.dump().c_str());
        return 0;
    }
    if (cmd == "run") {
        std::string vn = arg(argc, argv, "--variant", "B");
        const Variant* v = find_variant(vn);
        if (!v) { fprintf(stderr, "unknown variant %s\n", vn.c_str()); return 2; }
        const Profile& pf = profile_by_name(arg(argc, argv, "--profile", "plain"));
        uint64_t seed = strtoull(arg(argc, argv, "--seed", "1").c_str(), nullptr, 10);
        long count = atol(arg(argc, argv, "--count", "100").c_str());
        long start = atol(arg(argc, argv, "--start", "0").c_str());
        std::string prop = arg(argc, argv, "--property", "");
        int max_report = atoi(arg(argc, argv, "--max-report", "5").c_str());
        bool verbose = has_flag(argc, argv, "--verbose");
        std::string track = arg(argc, argv, "--track", "");
        RunStats st;
        auto t0 = std::chrono::steady_clock::now();
        int reported = 0;
        bool ids_reported = false;
        for (long i = start; i < start + count; ++i) {
            uint64_t s = mix(seed, (uint64_t)i);
            Plan plan = generate_plan(d, *v, pf, s);
            if (!track.empty()) {
                // sanitizer builds: remember the plan in flight, a hard error kills the process
                FILE* tf = fopen(track.c_str(), "w");
                if (tf) { fputs(plan_to_json(plan).dump().c_str(), tf); fputc('\n', tf); fclose(tf); }
            }
            set_inflight(plan);
            Outcome oc = evaluate(d, *v, pf, plan, &st);
#ifdef SIM_ASAN
            if (oc.verdict == V_OK && __lsan_do_recoverable_leak_check()) {
                oc.verdict = V_INVARIANT; oc.level = "SAN"; oc.props = {"C20"};
                oc.detail = "LeakSanitizer: memory allocated during this run is no longer reachable"; oc.plan = plan;
                oc.dv.diverged = true;
            }
#endif
            if (oc.level == "IDS") {
                // finding KF-3 shows in every run on such a machine: report it once, outside the report budget
                if (ids_reported) continue;
                ids_reported = true;
                --reported;
            }
            if (oc.verdict != V_OK && reported < max_report) {
                Outcome m = oc.level == "SAN" ? oc : shrink(d, *v, pf, plan, oc);
                ++reported;
                JV j = outcome_to_json(d, *v, m, i);
                printf("DIVERGENCE %s\n", j.dump().c_str());
                if (verbose && oc.level != "SAN") {
                    World real(d, [&](int) { return v->make(); }, false), model(d, [&](int r) { return (IMachine*)new Model(d, dialect_of(*v), r); }, true);
                    real.observe_each = model.observe_each = pf.observe_each;
                    real.run(m.plan); model.run(m.plan);
                    print_trace_window(d, real, model, m.dv.index, 25, 6);
                }
                fflush(stdout);
            }
        }
        double wall = std::chrono::duration<double>(std::chrono::steady_clock::now() - t0).count();
        JV j = stats_to_json(st);
        j.set("wall_s", wall); j.set("variant", v->name); j.set("profile", pf.name); j.set("seed", (long long)seed);
        j.set("start", (long long)start); j.set("count", (long long)count); j.set("spec", d.name);
        printf("STATS %s\n", j.dump().c_str());
        return 0;
    }
    if (cmd == "diff") {
        std::string list = arg(argc, argv, "--variants", "B,M");
        std::vector<const Variant*> vs;
        size_t pos = 0;
        while (pos <= list.size()) {
            size_t q = list.find(',', pos);
            if (q == std::string::npos) q = list.size();
            const Variant* v = find_variant(list.substr(pos, q - pos));
            if (!v) { fprintf(stderr, "unknown variant %s\n", list.substr(pos, q - pos).c_str()); return 2; }
            vs.push_back(v);
            pos = q + 1;
        }
        const Profile& pf = profile_by_name(arg(argc, argv, "--profile", "plain"));
        std::string mode = arg(argc, argv, "--mode", "backend");
        uint64_t seed = strtoull(arg(argc, argv, "--seed", "1").c_str(), nullptr, 10);
        long count = atol(arg(argc, argv, "--count", "100").c_str());
        long start = atol(arg(argc, argv, "--start", "0").c_str());
        int max_report = atoi(arg(argc, argv, "--max-report", "5").c_str());
        RunStats st;
        auto t0 = std::chrono::steady_clock::now();
        int reported = 0;
        bool ids_reported = false;
        for (long i = start; i < start + count; ++i) {
            Plan plan = generate_plan(d, *vs[i % vs.size()], pf, mix(seed, (uint64_t)i));
            plan.variant = list;
            set_inflight(plan);
            Outcome oc = evaluate_diff(d, vs, pf, plan, mode, &st);
            if (oc.level == "IDS") {
                if (ids_reported) continue;
                ids_reported = true;
                --reported;
            }
            if (oc.verdict != V_OK && reported < max_report) {
                Outcome m = shrink_diff(d, vs, pf, plan, mode, oc);
                ++reported;
                JV j = outcome_to_json(d, *vs[0], m, i);
                j.set("variant", list); j.set("mode", mode);
                printf("DIVERGENCE %s\n", j.dump().c_str());
                fflush(stdout);
            }
        }
        double wall = std::chrono::duration<double>(std::chrono::steady_clock::now() - t0).count();
        JV j = stats_to_json(st);
        j.set("wall_s", wall); j.set("variant", list); j.set("profile", pf.name); j.set("seed", (long long)seed);
        j.set("start", (long long)start); j.set("count", (long long)count); j.set("spec", d.name); j.set("mode", mode);
        printf("STATS %s\n", j.dump().c_str());
        return 0;
    }
    if (cmd == "dump") {
        std::string vn = arg(argc, argv, "--variant", "B");
        const Variant* v = find_variant(vn);
        if (!v) { fprintf(stderr, "unknown variant %s\n", vn.c_str()); return 2; }
        const Profile& pf = profile_by_name(arg(argc, argv, "--profile", "plain"));
        uint64_t seed = strtoull(arg(argc, argv, "--seed", "1").c_str(), nullptr, 10);
        long idx = atol(arg(argc, argv, "--index", "0").c_str());
        Plan plan = generate_plan(d, *v, pf, mix(seed, (uint64_t)idx));
        printf("%s\n", plan_to_json(plan).dump().c_str());
        const Desc& dv_ = view_of(d, v->dialect);
        World real(dv_, [&](int) { return v->make(); }, false), model(dv_, [&](int r) { return (IMachine*)new Model(dv_, dialect_of(*v), r); }, true);
        real.observe_each = model.observe_each = pf.observe_each;
        real.run(plan); model.run(plan);
        Divergence dv = compare_traces(real, model);
        size_t n = std::max(real.env.trace.size(), model.env.trace.size());
        print_trace_window(d, real, model, dv.diverged ? dv.index : n, (int)n, (int)n);
        return 0;
    }
    if (cmd == "replay") {
        std::ifstream f(arg(argc, argv, "--file"));
        std::stringstream ss; ss << f.rdbuf();
        JV j = jparse(ss.str());
        Plan plan = plan_from_json(j.at("plan"));
        set_inflight(plan);
        if (j.has("mode")) {
            std::vector<const Variant*> vs;
            std::string list = plan.variant;
            size_t pos = 0;
            while (pos <= list.size()) {
                size_t q = list.find(',', pos);
                if (q == std::string::npos) q = list.size();
                const Variant* v = find_variant(list.substr(pos, q - pos));
                if (!v) { fprintf(stderr, "unknown variant\n"); return 2; }
                vs.push_back(v);
                pos = q + 1;
            }
            const Profile& pf = profile_by_name(plan.profile);
            Outcome oc = evaluate_diff(d, vs, pf, plan, j.str("mode"), nullptr);
            JV out = outcome_to_json(d, *vs[0], oc, -1);
            out.set("variant", list);
            printf("REPLAY %s\n", out.dump().c_str());
            if (has_flag(argc, argv, "--verbose")) {
                for (size_t k = 0; k < vs.size(); ++k) {
                    World w(view_of(d, vs[k]->dialect), [&](int) { return vs[k]->make(); }, false);
                    w.observe_each = pf.observe_each;
                    w.run(plan);
                    printf("---- %s\n", vs[k]->name.c_str());
                    for (auto& r : w.env.trace) if (r.kind <= K_RET || r.kind == K_OP) printf("   %s\n", rec_to_string(d, r).c_str());
                }
            }
            return oc.verdict == V_OK ? 0 : 1;
        }
        const Variant* v = find_variant(plan.variant);
        if (!v) { fprintf(stderr, "unknown variant %s\n", plan.variant.c_str()); return 2; }
        const Profile& pf = profile_by_name(plan.profile);
        RunStats st;
        Outcome oc = evaluate(d, *v, pf, plan, &st);
#ifdef SIM_ASAN
        if (oc.verdict == V_OK && __lsan_do_recoverable_leak_check()) {
            oc.verdict = V_INVARIANT; oc.level = "SAN"; oc.props = {"C20"};
            oc.detail = "LeakSanitizer: memory allocated during this run is no longer reachable"; oc.plan = plan;
        }
#endif
        JV out = outcome_to_json(d, *v, oc, -1);
        printf("REPLAY %s\n", out.dump().c_str());
        fflush(stdout);
        if (has_flag(argc, argv, "--verbose")) {
            const Desc& dv_ = view_of(d, v->dialect);
            World real(dv_, [&](int) { return v->make(); }, false), model(dv_, [&](int r) { return (IMachine*)new Model(dv_, dialect_of(*v), r); }, true);
            real.observe_each = model.observe_each = pf.observe_each;
            real.run(plan); model.run(plan);
            print_trace_window(dv_, real, model, oc.dv.index, getenv("VERIF_WINDOW") ? atoi(getenv("VERIF_WINDOW")) : 40, 8);
            if (real.aborted) printf("library assertion: %s\n", real.abort_msg.c_str());
        }
        return oc.verdict == V_OK ? 0 : 1;
    }
    fprintf(stderr, "unknown command %s\n", cmd.c_str());
    return 2;
}
