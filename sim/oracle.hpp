// sim/oracle.hpp -- deciding a run: lockstep against the reference model, model-free invariants,
// attribution of the first divergence to properties, minimisation.
#pragma once
#include "driver.hpp"
#include "genplan.hpp"
#include <map>
#include <set>

namespace sim {

enum Verdict { V_OK = 0, V_DIVERGED = 1, V_INVARIANT = 2, V_HARNESS = 3 };

struct Outcome {
    int verdict = V_OK;
    Plan plan;
    Divergence dv;
    std::string level;                 // ladder level A..E, or "I<n>" for an invariant
    std::vector<std::string> props;    // properties the divergence is attributed to
    std::string detail;
    std::vector<Rec> expected, observed; // excerpt around the divergence
    uint64_t hash_real = 0, hash_model = 0;
};

struct RunStats {
    long runs = 0, ops = 0, behaviour_calls = 0, dispatches = 0;
    long posts_configured = 0, posts_fired = 0, throws_configured = 0, throws_fired = 0;
    long copies = 0, assigns = 0, moves = 0, saveloads = 0, stopstarts = 0, clears = 0, destroys = 0;
    long diverged = 0, invariant_violations = 0;
    long ids_known = 0;                         // clean runs that showed finding KF-3 (state-id numbering of the back-ends)
    long multi_candidate_dispatches = 0, nested_dispatches = 0, deferred_seen = 0, completion_seen = 0, blocked_seen = 0;
    long exceptions_caught = 0, no_transitions = 0, entries = 0, exits = 0, guards = 0, actions = 0;
    std::map<uint64_t, uint32_t> trace_hashes;  // distinct whole-run traces -> feature mask of the run
    std::set<uint64_t> config_hashes;           // distinct active configurations (all levels) seen at quiescence
    std::set<uint64_t> triple_hashes;           // distinct (configuration, event type, consulted guard values)
    std::set<uint64_t> queue_hashes;            // distinct pending-queue abstractions
    std::vector<std::string> samples;           // a few plans with their traces, written out
};

// the description with the state ids as the back-end of a variant numbers them (dialect 0 = back / back11)
const Desc& view_of(const Desc& d, int dialect);
Outcome evaluate(const Desc& d, const Variant& v, const Profile& pf, const Plan& plan, RunStats* st);
// differential oracle (no model in the loop): same plan on several variants, normalised traces compared
// against the first one.  mode: "backend" (C13), "policy" (C19 outside transitions), "frontend" (C14)
Outcome evaluate_diff(const Desc& d, const std::vector<const Variant*>& vs, const Profile& pf, const Plan& plan,
                      const std::string& mode, RunStats* st);
Outcome shrink_diff(const Desc& d, const std::vector<const Variant*>& vs, const Profile& pf, const Plan& plan,
                    const std::string& mode, const Outcome& first);
Outcome shrink(const Desc& d, const Variant& v, const Profile& pf, const Plan& plan, const Outcome& first);
JV outcome_to_json(const Desc& d, const Variant& v, const Outcome& o, long index);
JV stats_to_json(const RunStats& st);

} // namespace sim
