// sim/plan.hpp -- a run is a Plan: an explicit, positional list of ops (DESIGN.md section 4).
#pragma once
#include "core.hpp"
#include "json.hpp"
#include <cstring>
#include <string>
#include <vector>

namespace sim {

enum OpKind : uint8_t {
    OP_START = 0, OP_STOP = 1, OP_PROCESS = 2, OP_ENQUEUE = 3, OP_DEFER = 4, OP_DRAIN = 5, OP_DRAIN1 = 6,
    OP_COPY = 7, OP_ASSIGN = 8, OP_MOVE = 9, OP_MOVE_ASSIGN = 10, OP_SAVELOAD = 11, OP_CLEARQ = 12,
    OP_DESTROY = 13, OP_SUBPROCESS = 14, OP_OBSERVE = 15, OP_SETDATA = 16
};
inline const char* op_name(uint8_t k) {
    static const char* n[] = {"start", "stop", "process", "enqueue", "defer", "drain", "drain1", "copy", "assign",
                              "move", "move_assign", "saveload", "clearq", "destroy", "subprocess", "observe", "setdata"};
    return k < sizeof(n) / sizeof(n[0]) ? n[k] : "?";
}
inline int op_kind_of(const std::string& s) {
    for (int k = 0; k <= OP_SETDATA; ++k) if (s == op_name((uint8_t)k)) return k;
    return -1;
}

struct Op {
    uint8_t kind = OP_PROCESS;
    int8_t on = 0;        // replica the op targets
    int8_t other = -1;    // second replica (assign / move_assign source) or machine index (subprocess)
    int16_t ev = 0;       // event type
    int32_t occ = 0;      // occurrence id
    int8_t arg = 0;       // fmt for saveload, which for clearq, state for setdata
    int32_t val = 0;
    std::vector<uint8_t> gv; // guard vector (one bit per leaf) valid during this op
    std::vector<Post> posts;
    std::vector<Throw> throws;
    uint32_t cond = 0;    // conditional-deferral decision bits valid during this op
};

struct Plan {
    uint64_t seed = 0;
    std::string variant;
    std::string profile;
    std::vector<Op> ops;
};

inline std::string gv_str(const std::vector<uint8_t>& g) {
    std::string s;
    for (auto b : g) s += b ? '1' : '0';
    return s;
}
inline JV op_to_json(const Op& o) {
    JV j = JV::obj();
    j.set("k", op_name(o.kind));
    if (o.on) j.set("on", (int)o.on);
    if (o.other >= 0) j.set("other", (int)o.other);
    if (o.kind == OP_PROCESS || o.kind == OP_ENQUEUE || o.kind == OP_DEFER || o.kind == OP_SUBPROCESS) {
        j.set("ev", (int)o.ev);
        j.set("occ", (int)o.occ);
    }
    if (o.arg) j.set("arg", (int)o.arg);
    if (o.val) j.set("val", (int)o.val);
    if (o.cond) j.set("cond", (long long)o.cond);
    j.set("gv", gv_str(o.gv));
    if (!o.posts.empty()) {
        JV a = JV::arr();
        for (auto& p : o.posts) {
            JV x = JV::obj();
            x.set("cb", kind_name(p.cb)); x.set("site", (int)p.site); x.set("nth", (int)p.nth);
            x.set("api", (int)p.api); x.set("root", (int)p.to_root); x.set("ev", (int)p.ev); x.set("occ", (int)p.occ);
            a.push(x);
        }
        j.set("posts", a);
    }
    if (!o.throws.empty()) {
        JV a = JV::arr();
        for (auto& t : o.throws) {
            JV x = JV::obj();
            x.set("cb", kind_name(t.cb)); x.set("site", (int)t.site); x.set("nth", (int)t.nth);
            a.push(x);
        }
        j.set("throws", a);
    }
    return j;
}
inline int kind_of_name(const std::string& s) {
    for (int k = 0; k <= K_BUSY; ++k) if (s == kind_name((uint8_t)k)) return k;
    return -1;
}
inline Op op_from_json(const JV& j) {
    Op o;
    o.kind = (uint8_t)op_kind_of(j.str("k"));
    o.on = (int8_t)j.i("on", 0);
    o.other = (int8_t)j.i("other", -1);
    o.ev = (int16_t)j.i("ev", 0);
    o.occ = (int32_t)j.i("occ", 0);
    o.arg = (int8_t)j.i("arg", 0);
    o.val = (int32_t)j.i("val", 0);
    o.cond = (uint32_t)j.i("cond", 0);
    for (char c : j.str("gv")) o.gv.push_back(c == '1');
    if (const JV* a = j.get("posts"))
        for (auto& x : a->a) {
            Post p;
            p.cb = (uint8_t)kind_of_name(x.str("cb")); p.site = (int16_t)x.i("site"); p.nth = (int16_t)x.i("nth");
            p.api = (uint8_t)x.i("api"); p.to_root = (uint8_t)x.i("root"); p.ev = (int16_t)x.i("ev"); p.occ = (int32_t)x.i("occ");
            o.posts.push_back(p);
        }
    if (const JV* a = j.get("throws"))
        for (auto& x : a->a) {
            Throw t;
            t.cb = (uint8_t)kind_of_name(x.str("cb")); t.site = (int16_t)x.i("site"); t.nth = (int16_t)x.i("nth");
            o.throws.push_back(t);
        }
    return o;
}
inline JV plan_to_json(const Plan& p) {
    JV j = JV::obj();
    j.set("seed", std::to_string(p.seed));
    j.set("variant", p.variant);
    j.set("profile", p.profile);
    JV a = JV::arr();
    for (auto& o : p.ops) a.push(op_to_json(o));
    j.set("ops", a);
    return j;
}
inline Plan plan_from_json(const JV& j) {
    Plan p;
    p.seed = j.at("seed").t == JV::STR ? strtoull(j.at("seed").s.c_str(), nullptr, 10) : (uint64_t)j.i("seed");
    p.variant = j.str("variant");
    p.profile = j.str("profile");
    for (auto& x : j.at("ops").a) p.ops.push_back(op_from_json(x));
    return p;
}

// ---- PRNG: splitmix64 / xoshiro-free, one integer decides everything
struct Rng {
    uint64_t s;
    explicit Rng(uint64_t seed) : s(seed) {}
    uint64_t next() {
        uint64_t z = (s += 0x9e3779b97f4a7c15ull);
        z = (z ^ (z >> 30)) * 0xbf58476d1ce4e5b9ull;
        z = (z ^ (z >> 27)) * 0x94d049bb133111ebull;
        return z ^ (z >> 31);
    }
    uint32_t below(uint32_t n) { return n ? (uint32_t)(next() % n) : 0; }
    bool chance(double p) { return (next() >> 11) * (1.0 / 9007199254740992.0) < p; }
    int range(int lo, int hi) { return lo + (int)below((uint32_t)(hi - lo + 1)); }
};
inline uint64_t mix(uint64_t a, uint64_t b) {
    Rng r(a ^ (b * 0x9e3779b97f4a7c15ull + 0x7f4a7c15ull));
    r.next();
    return r.next();
}

} // namespace sim
