// sim/driver.hpp -- the simulated world: replicas of one machine (real adapters or reference
// models), the Env they talk to, and the interpreter of plan ops.
#pragma once
#include "core.hpp"
#include "desc.hpp"
#include "imachine.hpp"
#include "plan.hpp"
#include <functional>
#include <memory>

namespace sim {

struct AssertFailed { std::string msg; };

typedef std::function<IMachine*(int rep)> Maker;

struct World {
    const Desc* d = nullptr;
    Env env;
    std::vector<std::unique_ptr<IMachine>> reps;
    std::vector<uint8_t> started;   // per replica
    std::vector<uint8_t> moved;     // per replica: moved-from (may only be destroyed or assigned to)
    Maker make;
    bool is_model = false;
    bool observe_each = false;      // full introspection after every op
    bool aborted = false;           // an assertion of the library fired / harness-level failure
    std::string abort_msg;
    std::vector<size_t> op_index;   // trace index where op i starts
    long ops_done = 0;

    World() {}
    World(const Desc& desc, Maker mk, bool model);
    World(const World& o);              // deep copy (models only)
    World& operator=(const World&) = delete;

    void exec(const Op& op, int idx);
    void run(const Plan& p);
    void observe_quiescent(int rep);
    void observe_full(int rep);
    void log_live();
    bool machine_active(const Snap& s, int mi) const;
    void refresh_extents();
    int add_replica(IMachine* m);
};

// comparison
struct Divergence {
    bool diverged = false;
    size_t index = 0;       // first differing record
    int op = -1;            // op containing it
    std::string why;
};
Divergence compare_traces(const World& real, const World& model);
std::string rec_to_string(const Desc& d, const Rec& r);
JV rec_to_json(const Rec& r);
uint64_t trace_hash(const std::vector<Rec>& t);

} // namespace sim
