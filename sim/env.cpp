#include "core.hpp"
#include "imachine.hpp"
namespace sim {
static Env g_default_env;
static Env* g_env = &g_default_env;
Env& env() { return *g_env; }
void set_env(Env* e) { g_env = e ? e : &g_default_env; }
EvRegistry& registry() { static EvRegistry r; return r; }
std::vector<Variant>& variants() { static std::vector<Variant> v; return v; }
VariantReg::VariantReg(const char* n, Factory f, int dialect, int pol, const char* note) {
    variants().push_back(Variant{n, f, dialect, pol, note});
}
} // namespace sim

#include "driver.hpp"
#include <string>
namespace boost {
void assertion_failed(char const* expr, char const* function, char const* file, long line) {
    throw sim::AssertFailed{std::string(expr) + " in " + function + " (" + file + ":" + std::to_string(line) + ")"};
}
void assertion_failed_msg(char const* expr, char const* msg, char const* function, char const* file, long line) {
    throw sim::AssertFailed{std::string(expr) + ": " + msg + " in " + function + " (" + file + ":" + std::to_string(line) + ")"};
}
} // namespace boost
