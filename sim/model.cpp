// sim/model.cpp -- reference model.  Every rule is annotated with the property (Cxx) whose statement
// it encodes or with the documentation it follows.  [B] = back/back11 dialect, [M] = backmp11.
#include "model.hpp"
#include <algorithm>
#include <cassert>

namespace sim {

Model::Model(const Desc& d, const Dialect& dl, int rep) : d_(&d), dl_(dl), rep_(rep) {
    inst_.resize(d.machines.size());
    for (size_t mi = 0; mi < d.machines.size(); ++mi) {
        const DMachine& m = d.machines[mi];
        MInst& I = inst_[mi];
        I.active.resize(m.regions.size());
        I.hist.resize(m.regions.size());
        for (size_t r = 0; r < m.regions.size(); ++r)
            I.active[r] = I.hist[r] = d.states[m.regions[r][0]].lib_id;
    }
    data_.assign(d.states.size(), 0);
}

// ------------------------------------------------------------------------------------------ helpers
uint32_t Model::obs(int mi) const {
    uint32_t o = 0;
    const MInst& I = inst_[mi];
    int nr = (int)I.active.size();
    for (int i = 0; i < nr && i < 4; ++i) o |= ((uint32_t)I.active[i] & 0xff) << (8 * i);
    for (int i = nr; i < 4; ++i) o |= 0xffu << (8 * i);
    return o;
}
EvInfo Model::info(const MEv& e) const {
    EvInfo i;
    i.occ = e.occ; i.type = i.dyn = e.ev;
    i.chk = e.ev >= 0 ? chk_of_occ(e.occ) : 0;
    return i;
}
EvInfo Model::info_static(const MEv& e, int trigger) const {
    EvInfo i = info(e);
    if (trigger >= 0) i.type = i.dyn = (int16_t)trigger; // behaviours see the trigger's static type (C18)
    return i;
}
bool Model::is_base_of(int base, int ev) const {
    while (ev >= 0) {
        if (ev == base) return true;
        ev = d_->events[ev].base;
    }
    return false;
}
bool Model::matches(int trigger, int ev) const {
    // C18: exact type, public base (run-time-speed policies) or Kleene
    if (trigger == TRIG_COMPLETION || ev == EV_NONE) return trigger == TRIG_COMPLETION && ev == EV_NONE;
    if (ev < 0) return false;
    if (trigger == TRIG_KLEENE) return !(dl_.ct);
    if (trigger == ev) return true;
    if (mp() && dl_.ct) return false;           // backmp11 favor_compile_time: exact types only
    return is_base_of(trigger, ev);
}
int Model::own_site(int mi) const {
    return M(mi).parent < 0 ? (int)d_->states.size() : M(mi).parent_state;
}

void Model::run_cb(Cb& cb, int mi) {
    Env& en = env();
    for (int i = 0; i < cb.npost; ++i) {
        Post& p = *cb.posts[i];
        p.fired = true;
        en.log_post(p, rep_, mi);
        submit(p.to_root ? 0 : mi, p);
    }
    if (cb.do_throw) { en.log_throw(rep_, mi); throw Injected(); }
}
void Model::call(uint8_t kind, int site, int mi, const EvInfo& e, int val, bool mask_obs) {
    env().cur_aux = (uint8_t)((inst_[mi].busy ? 1 : 0) | (inst_[0].busy ? 2 : 0));
    Cb cb = env().begin(kind, site, rep_, mi, e, mask_obs ? 0u : obs(mi), val);
    if (kind == K_EC) cb.do_throw = false;
    run_cb(cb, mi);
}
bool Model::call_guard_leaf(int leaf, int mi, const EvInfo& e) {
    env().cur_aux = (uint8_t)((inst_[mi].busy ? 1 : 0) | (inst_[0].busy ? 2 : 0));
    Cb cb = env().begin(K_G, leaf, rep_, mi, e, obs(mi));
    run_cb(cb, mi);
    return cb.value;
}
bool Model::eval_guard(int node, int mi, const EvInfo& e) {
    const DGuardNode& g = d_->gnodes[node];
    switch (g.op) {
        case 0: return call_guard_leaf(g.leaf, mi, e);
        case 1: return !eval_guard(g.a, mi, e);
        case 2: return eval_guard(g.a, mi, e) && eval_guard(g.b, mi, e);   // C14: C++ short-circuit
        default: return eval_guard(g.a, mi, e) || eval_guard(g.b, mi, e);
    }
}
void Model::submit(int mi, const Post& p) {
    MEv e{p.ev, p.occ};
    if (p.api == API_PROCESS) {
        if (mp()) m_process_internal(mi, e, INFO_DIRECT);
        else b_process_internal(mi, e, SRC_DIRECT);
    } else if (p.api == API_ENQUEUE) {
        if (mp()) m_do_defer(mi, e, false);
        else if (M(mi).queue) inst_[mi].q_msg.push_back(BQItem{e, SRC_MSGQ});      // no_message_queue: enqueue_event is empty
    } else if (p.api == API_CLEARDEF) {
        // C20: clearing the deferred queue from inside a dispatch destroys the stored copies; the occurrence being
        // dispatched (already taken out of the queue) is unaffected
        if (!mp() && M(mi).has_deferred) inst_[mi].q_def.clear();
    } else {
        if (mp()) m_do_defer(mi, e, inst_[mi].busy);
        else if (M(mi).has_deferred) b_defer(mi, e);
    }
}
void Model::post(const Post& p) { submit(0, p); }

// ------------------------------------------------------------------------------------------ flags / blocking
bool Model::has_internal_flag(int mi, int which, bool recursive) const {
    const MInst& I = inst_[mi];
    for (size_t r = 0; r < I.active.size(); ++r) {
        const DState& s = S(state_of(mi, I.active[r]));
        if (which == 0 && s.kind == SK_TERMINATE) return true;
        if (which == 1 && s.kind == SK_INTERRUPT) return true;
        if (recursive && s.kind == SK_SUB && inst_[s.sub].running && has_internal_flag(s.sub, which, true)) return true;
    }
    return false;
}
bool Model::has_end_interrupt(int mi, int ev, bool recursive) const {
    const MInst& I = inst_[mi];
    for (size_t r = 0; r < I.active.size(); ++r) {
        const DState& s = S(state_of(mi, I.active[r]));
        if (s.kind == SK_INTERRUPT)
            for (int x : s.end_events) if (x == ev) return true;   // EndInterruptFlag<Event>: exact type
        if (recursive && s.kind == SK_SUB && inst_[s.sub].running && has_end_interrupt(s.sub, ev, true)) return true;
    }
    return false;
}
bool Model::blocked_b(int mi, int ev) const {
    // C11 [B]: flags of the machine that receives the event only (the blocking flags are non-forwarding)
    if (!M(mi).has_blocking) return false;
    if (has_internal_flag(mi, 0, false)) return true;
    if (has_internal_flag(mi, 1, false) && !has_end_interrupt(mi, ev, false)) return true;
    return false;
}
bool Model::blocked_m(int mi, int ev) const {
    if (!M(mi).has_blocking) return false;
    if (!inst_[mi].running) return false;
    if (has_internal_flag(mi, 0, true)) return true;
    if (has_internal_flag(mi, 1, true)) {
        bool end = false;
        if (dl_.ct) {
            // favor_compile_time looks the event up in this machine's own transition-table event set
            bool known = false;
            for (int rid : M(mi).rows) if (d_->rows[rid].trigger == ev) known = true;
            end = known && has_end_interrupt(mi, ev, true);
        } else end = has_end_interrupt(mi, ev, true);
        if (!end) return true;
    }
    return false;
}
bool Model::flag_or(int mi, int flag, bool forward_into_sub) const {
    const MInst& I = inst_[mi];
    for (size_t r = 0; r < I.active.size(); ++r) {
        const DState& s = S(state_of(mi, I.active[r]));
        for (int f : s.flags) if (f == flag) return true;
        if (forward_into_sub && s.kind == SK_SUB && flag_or(s.sub, flag, true)) return true;
    }
    return false;
}
int Model::flag(int mi, int flag) const {
    // C17: OR = some active state (recursively) carries F; AND = every region's active state carries F
    const MInst& I = inst_[mi];
    if (mp() && !inst_[mi].running) return 0 | 2; // nothing visited: OR false, AND vacuously true
    bool any = false, all = true;
    for (size_t r = 0; r < I.active.size(); ++r) {
        const DState& s = S(state_of(mi, I.active[r]));
        bool has = false;
        for (int f : s.flags) if (f == flag) has = true;
        bool sub_or = false, sub_and = false;
        if (!has && s.kind == SK_SUB) {
            int fl = this->flag(s.sub, flag);
            sub_or = fl & 1;
            sub_and = fl & 2;
        }
        if (mp()) {
            any = any || has || sub_or;
            // [M] AND: every visited state (recursively) must carry the flag
            if (!has) all = false;
            if (s.kind == SK_SUB && has) {
                int fl = this->flag(s.sub, flag);
                if (!(fl & 2)) all = false;
            }
        } else {
            // [B] a composite without the flag forwards the query (default operator of the sub-machine: OR / single)
            bool v = has || sub_or;
            any = any || v;
            all = all && v;
            (void)sub_and;
        }
    }
    return (any ? 1 : 0) | (all ? 2 : 0);
}
void Model::m_visit_active(int mi, bool recursive, std::vector<int>& out) const {
    if (!inst_[mi].running) return;
    const MInst& I = inst_[mi];
    for (size_t r = 0; r < I.active.size(); ++r) {
        int s = state_of(mi, I.active[r]);
        out.push_back(s);
        if (recursive && S(s).kind == SK_SUB) m_visit_active(S(s).sub, true, out);
    }
}
int Model::state_active(int g) const {
    if (!mp()) return -1;
    std::vector<int> v;
    m_visit_active(0, true, v);
    return std::find(v.begin(), v.end(), g) != v.end() ? 1 : 0;
}
bool Model::visit(int mode, std::vector<int>& out) {
    if (!mp()) return false;
    if (mode == 0) m_visit_active(0, true, out);
    else if (mode == 1) m_visit_active(0, false, out);
    else {
        // all states in id order, recursively after the sub-machine state itself
        struct Rec { const Model* m; void go(int mi, bool rec, std::vector<int>& o) {
            for (int s : m->M(mi).states) { o.push_back(s); if (rec && m->S(s).kind == SK_SUB) go(m->S(s).sub, true, o); } } };
        Rec r{this};
        r.go(0, mode == 2, out);
    }
    return true;
}
int Model::state_by_id(int mi, int id) const {
    if (mp()) return -2;
    if (id < 0 || id >= (int)M(mi).states.size()) return -1;
    return M(mi).states[id];
}

// ------------------------------------------------------------------------------------------ candidates
bool Model::event_in_recursive_set(int mi, int ev, bool exact) const {
    // does machine mi (recursively: tables, sm-internal tables, state-local tables) mention a trigger matching ev
    auto m1 = [&](int trig) {
        if (exact) return trig == ev || (trig == TRIG_COMPLETION && ev == EV_NONE);
        if (trig == TRIG_KLEENE) return ev >= 0;   // frow<Sub, any> matches every event
        return matches(trig, ev);
    };
    for (int rid : M(mi).rows) if (m1(d_->rows[rid].trigger)) return true;
    for (int rid : M(mi).irows) if (m1(d_->rows[rid].trigger)) return true;
    for (int s : M(mi).states) {
        for (int rid : S(s).irows) if (m1(d_->rows[rid].trigger)) return true;
        if (S(s).kind == SK_SUB && event_in_recursive_set(S(s).sub, ev, exact)) return true;
    }
    return false;
}
bool Model::mp_needs_forward(int mi, int ev) const {
    for (int rid : M(mi).rows) {
        int t = d_->rows[rid].trigger;
        if (t != TRIG_COMPLETION && matches(t, ev)) return true;
    }
    for (int rid : M(mi).irows) if (matches(d_->rows[rid].trigger, ev)) return true;
    for (int s : M(mi).states) {
        for (int rid : S(s).irows) if (matches(d_->rows[rid].trigger, ev)) return true;
        if (S(s).kind == SK_SUB && mp_needs_forward(S(s).sub, ev)) return true;
    }
    return false;
}
void Model::candidates(int mi, int s, int ev, std::vector<int>& rows, bool& forward) const {
    // C01: candidates = rows with source s whose trigger matches; a state's own internal table before
    // table rows; each last-declared first.  Sub-machine owned candidates (forward) before all of them.
    rows.clear();
    forward = false;
    const DState& st = S(s);
    if (st.kind == SK_SUB) {
        if (mp()) forward = dl_.ct ? true : mp_needs_forward(st.sub, ev);
        else forward = dl_.ct ? (ev != EV_NONE) : event_in_recursive_set(st.sub, ev, false); // [B ct] completion events are not forwarded
    }
    for (int k = (int)st.irows.size() - 1; k >= 0; --k)
        if (matches(d_->rows[st.irows[k]].trigger, ev)) rows.push_back(st.irows[k]);
    const DMachine& m = M(mi);
    for (int k = (int)m.rows.size() - 1; k >= 0; --k) {
        const DRow& r = d_->rows[m.rows[k]];
        if (r.src_owner == s && matches(r.trigger, ev)) rows.push_back(m.rows[k]);
    }
}

// ------------------------------------------------------------------------------------------ transitions
static inline int pol_after(int pol, int phase, int cur, int next) {
    // C19: phase 0 after_guard, 1 after_exit, 2 after_action, 3 after_entry
    switch (pol) {
        case 0: return phase >= 3 ? next : cur;   // after_entry (default)
        case 1: return phase >= 2 ? next : cur;   // after_transition_action
        case 2: return phase >= 1 ? next : cur;   // after_exit
        default: return next;                     // before_transition
    }
}
bool Model::exit_pt_active(int sub_mi, int xp_state) const {
    const MInst& I = inst_[sub_mi];
    int id = S(xp_state).lib_id;
    for (int a : I.active) if (a == id) return true;
    return false;
}
int Model::run_actions(int mi, const DRow& r, const EvInfo& ei, const MEv& e) {
    int res = R_TRUE;
    for (int a : r.actions) {
        if (a == ACT_DEFER) {
            // C05: Defer action keeps the occurrence pending
            if (mp()) { m_do_defer(mi, e, inst_[mi].busy); if (r.actions.size() == 1) res = R_DEFERRED; }
            else { b_defer(mi, e); res = R_DEFERRED; }
        } else call(K_A, a, mi, ei);
    }
    return res;
}
int Model::take_row(int mi, int region, int rid, const MEv& e) {
    const DRow& r = d_->rows[rid];
    EvInfo ei = info_static(e, r.trigger);
    MInst& I = inst_[mi];
    if (r.table == 0 && r.src != r.src_owner) {
        // C09: the row leaving an exit point fires only while that exit point is active
        if (!exit_pt_active(S(r.src_owner).sub, r.src)) return R_FALSE;
    }
    if (r.guard >= 0 && !eval_guard(r.guard, mi, ei)) return R_REJECT;
    if (r.tkind == TK_NONE) return run_actions(mi, r, ei, e);   // C02: internal: guard + action only
    int cur = S(r.src_owner).lib_id, next = S(r.tgt_owner).lib_id;
    int pol = policy(mi);
    I.active[region] = pol_after(pol, 0, cur, next);
    exit_state(mi, r.src_owner, e, r.trigger);                     // C02: exit, action, entry
    I.active[region] = pol_after(pol, 1, cur, next);
    int res = run_actions(mi, r, ei, e);
    I.active[region] = pol_after(pol, 2, cur, next);
    enter_target(mi, r, e);
    I.active[region] = next;
    if (mp()) m_entry_completed(mi, r.tgt_owner, region);
    return res;
}
void Model::exit_state(int mi, int s, const MEv& e, int trigger) {
    const DState& st = S(s);
    if (st.kind == SK_SUB) exit_machine(st.sub, e, trigger, mi);
    else call(K_X, s, mi, info_static(e, trigger));
}
void Model::exit_machine(int mi, const MEv& e, int trigger, int fsm_mi) {
    // C02/C07: substates first (regions in order, recursively), then the machine's own exit
    MInst& I = inst_[mi];
    bool visit = mp() ? I.running : true;
    if (visit)
        for (size_t r = 0; r < I.active.size(); ++r) exit_state(mi, state_of(mi, I.active[r]), e, trigger);
    call(K_X, own_site(mi), fsm_mi, info_static(e, trigger), 0, M(mi).parent < 0);
    // C08: memory updated on exit of this instance only
    if (M(mi).history != H_NONE) I.hist = I.active;
    if (!mp()) {
        // C05 [B]: deferred events of a sub-machine follow its history policy on exit
        int st = trigger >= 0 ? trigger : e.ev;
        if (!hist_applies(mi, st)) I.q_def.clear();
    }
}
bool Model::hist_applies(int mi, int static_ev_type) const {
    const DMachine& m = M(mi);
    if (m.history == H_ALWAYS) return true;
    if (m.history == H_SHALLOW)
        for (int x : m.shallow_events) if (x == static_ev_type) return true;   // exact type of the entering event
    return false;
}
void Model::set_active_by_history(int mi, int static_ev_type, bool /*wrapped*/) {
    // C08: initial / last active / last active iff the entering event is listed
    MInst& I = inst_[mi];
    const DMachine& m = M(mi);
    if (hist_applies(mi, static_ev_type)) I.active = I.hist;
    else {
        for (size_t r = 0; r < m.regions.size(); ++r) I.active[r] = S(m.regions[r][0]).lib_id;
        if (mp()) I.pool.clear();   // C20 statement: pool reset on (no-history) entry
    }
}
void Model::enter_simple(int mi, int s, const MEv& e, int trigger, bool by_row) {
    const DState& st = S(s);
    call(K_N, s, mi, info_static(e, trigger));
    if (st.kind == SK_EXIT_PT) {
        // C09: forward the (converted) event to the enclosing machine within the same top-level call
        MEv f{(int16_t)st.exit_event, e.occ};
        // [M] root.enqueue_event, done by the transition that targets the exit point: an exit point that the history
        // policy restores is entered without forwarding (DESIGN.md, finding KF-4); [B] forwards from the entry itself
        if (mp()) { if (by_row) m_do_defer(0, f, false); }
        // [B] root.process_event: the constructor of the outermost machine re-points the forwarders of every nesting
        // level to itself (set_containing_sm recursion), which is also what backmp11 does by design
        else if (M(mi).parent >= 0) b_process_internal(0, f, SRC_DIRECT);
    }
}
void Model::enter_target(int mi, const DRow& r, const MEv& e) {
    const DState& to = S(r.tgt_owner);
    if (to.kind == SK_SUB) {
        if (mp()) m_on_entry(to.sub, r.tkind == TK_STATE ? nullptr : &r, e, r.trigger, mi);
        else b_do_entry(to.sub, r.tkind == TK_STATE ? nullptr : &r, e, r.trigger, mi);
    } else enter_simple(mi, r.tgt_owner, e, r.trigger, true);
}

// chain of candidates for one region: first handled wins (C01), each guard once
int Model::run_chain(int mi, int region, int s, const MEv& e) {
    std::vector<int> rows;
    bool forward = false;
    candidates(mi, s, e.ev, rows, forward);
    const DState& st = S(s);
    int result = R_FALSE;
    if (!mp()) {
        bool defers = false;
        for (int x : st.deferred) if (x == e.ev) defers = true;
        if (!dl_.ct) {
            // [B rt] deferral is the default cell: only when no row (and no forwarding row) exists (C05 quantifier)
            if (!forward && rows.empty()) {
                if (defers) { b_defer(mi, e); return R_DEFERRED; }
                return R_FALSE;
            }
        } else if (defers && st.kind == SK_SUB) forward = false; // [B ct] a deferring composite is not forwarded to
        if (forward) {
            int sub = st.sub;
            int r;
            if (dl_.ct) r = event_in_recursive_set(sub, e.ev, true) ? b_process_internal(sub, e, SRC_DEFAULT) : R_FALSE;
            else r = b_process_internal(sub, e, SRC_DEFAULT);
            inst_[mi].active[region] = st.lib_id;
            if (rows.empty() && !dl_.ct) return r;           // single cell: result passed through unchanged
            if (r & (R_TRUE | R_DEFERRED)) return r;          // C01/C07: consumed inside => nothing outside
            result = r;
        }
        bool any_reject = (result == R_REJECT);
        int last = result;
        bool single = !forward && rows.size() == 1 && !dl_.ct;
        for (int rid : rows) {
            int r = take_row(mi, region, rid, e);
            if (single) return r;
            if (r & (R_TRUE | R_DEFERRED)) return r;
            if (r == R_REJECT) any_reject = true;
            last = r;
        }
        (void)last;
        if (dl_.ct && defers) { b_defer(mi, e); return R_DEFERRED; }   // [B ct] deferral is the last cell of the chain
        return any_reject ? R_REJECT : R_FALSE;
    }
    // [M]
    size_t n = rows.size() + (forward ? 1 : 0);
    if (forward) {
        int r = m_process_internal(st.sub, e, INFO_SUB);
        if (dl_.ct) {
            if (r & (R_TRUE | R_DEFERRED)) return r;
            result = r;
        } else {
            if (n == 1) return r;
            result |= r;
            if (result & (R_TRUE | R_DEFERRED)) return result & (R_TRUE | R_DEFERRED);
        }
    }
    for (int rid : rows) {
        int r = take_row(mi, region, rid, e);
        if (n == 1 && !dl_.ct) return r;
        result |= r;
        if (result & (R_TRUE | R_DEFERRED)) return result & (R_TRUE | R_DEFERRED);
    }
    return result;
}

// ------------------------------------------------------------------------------------------ [B] back / back11
void Model::b_defer(int mi, const MEv& e) {
    MInst& I = inst_[mi];
    I.q_def.push_back(BDItem{e, (int8_t)(I.cur_seq + 1)});
}
int Model::b_process_internal(int mi, const MEv& e, int source) {
    MInst& I = inst_[mi];
    if (blocked_b(mi, e.ev)) return R_TRUE;                         // C11
    const bool has_queue = M(mi).queue || mp();                      // back / back11 front-end option no_message_queue
    if (I.busy && has_queue) {                                      // C04: stored, not run re-entrantly
        I.q_msg.push_back(BQItem{e, (uint8_t)(SRC_DIRECT | SRC_MSGQ)});
        return R_TRUE;
    }
    const bool was_busy = I.busy;
    I.busy = true;
    int handled;
    try {
        handled = b_do_process_event(mi, e, (source & SRC_DIRECT) != 0);
    } catch (Injected&) {
        call(K_EC, mi, mi, info(e));                                // C12: contained, level answers "not handled"
        handled = R_FALSE;
    }
    I.busy = has_queue ? false : was_busy;     // a machine without queue never touches the flag itself (the entry blocker does)
    if (M(mi).has_completion && (handled & R_TRUE)) b_process_internal(mi, MEv{EV_NONE, OCC_NONE}, source | SRC_DIRECT); // C10
    if (M(mi).queue_first) {
        // front-end option event_queue_before_deferred_queue: pending submissions first, then the deferred events
        if (!(source & SRC_MSGQ)) {
            b_process_msg_queue(mi);                                                                              // C04
            if (!(source & SRC_DEFERRED) && M(mi).has_deferred) b_handle_deferred(mi, (handled & R_TRUE) != 0);   // C05
        }
    } else if (!(source & SRC_DEFERRED)) {
        if (M(mi).has_deferred) b_handle_deferred(mi, (handled & R_TRUE) != 0);   // C05
        if (!(source & SRC_MSGQ)) b_process_msg_queue(mi);                        // C04
    }
    return handled;
}
int Model::b_region(int mi, int region, const MEv& e) {
    int s = state_of(mi, inst_[mi].active[region]);
    return run_chain(mi, region, s, e);
}
int Model::b_do_process_event(int mi, const MEv& e, bool direct) {
    MInst& I = inst_[mi];
    int handled = R_FALSE;
    for (size_t r = 0; r < I.active.size(); ++r) handled |= b_region(mi, (int)r, e);   // C06: every region once, in order
    // sm-internal table: only if the regions did not consume the event (C01)
    bool processable = false;
    for (int rid : M(mi).irows) if (matches(d_->rows[rid].trigger, e.ev)) processable = true;   // C18: exact, base class or Kleene (fix F-V)
    if (processable && !(handled & (R_TRUE | R_DEFERRED))) {
        int res = R_FALSE;
        bool any_reject = false;
        std::vector<int> rows;
        for (int k = (int)M(mi).irows.size() - 1; k >= 0; --k)
            if (matches(d_->rows[M(mi).irows[k]].trigger, e.ev)) rows.push_back(M(mi).irows[k]);
        for (int rid : rows) {
            int r = take_row(mi, 0, rid, e);
            if (rows.size() == 1 && !dl_.ct) { res = r; any_reject = false; break; }
            if (r & (R_TRUE | R_DEFERRED)) { res = r; any_reject = false; break; }
            if (r == R_REJECT) any_reject = true;
        }
        if (any_reject) res = R_REJECT;
        handled |= res;
    }
    // C06: no_transition exactly when nothing matched anywhere, once per region, on the called machine only
    bool contained = M(mi).parent >= 0;
    if ((!contained || direct) && !handled && e.ev != EV_NONE)
        for (size_t r = 0; r < I.active.size(); ++r) call(K_NT, mi, mi, info(e), I.active[r]);
    return handled;
}
void Model::b_handle_deferred(int mi, bool new_seq) {
    MInst& I = inst_[mi];
    if (new_seq) ++I.cur_seq;
    bool not_only_deferred = false;
    while (!I.q_def.empty()) {
        BDItem it = I.q_def.front();
        if (I.cur_seq != it.seq) break;
        I.q_def.pop_front();
        int res = b_process_internal(mi, it.e, SRC_DIRECT | SRC_DEFERRED);   // C05: like a fresh event
        if (res != R_FALSE && res != R_DEFERRED) not_only_deferred = true;
        if (not_only_deferred) break;
    }
    if (not_only_deferred) {
        std::stable_sort(I.q_def.begin(), I.q_def.end(), [](const BDItem& a, const BDItem& b) { return a.seq > b.seq; });
        for (auto& x : I.q_def) x.seq = (int8_t)(I.cur_seq + 1);
        b_handle_deferred(mi, true);
    }
}
void Model::b_process_msg_queue(int mi) {
    MInst& I = inst_[mi];
    while (!I.q_msg.empty()) {
        BQItem it = I.q_msg.front();
        I.q_msg.pop_front();
        b_process_internal(mi, it.e, it.source);
    }
}
void Model::b_completion(int mi, int source) {
    if (M(mi).has_completion) b_process_internal(mi, MEv{EV_NONE, OCC_NONE}, source | SRC_DIRECT);
}
void Model::b_internal_start(int mi, const MEv& e, int trigger) {
    MInst& I = inst_[mi];
    for (size_t r = 0; r < I.active.size(); ++r) {
        int s = state_of(mi, I.active[r]);
        if (S(s).kind == SK_SUB) b_do_entry(S(s).sub, nullptr, e, trigger, mi);
        else enter_simple(mi, s, e, trigger);
    }
}
void Model::b_do_entry(int mi, const DRow* r, const MEv& e, int trigger, int fsm_mi) {
    MInst& I = inst_[mi];
    int st = trigger >= 0 ? trigger : e.ev;
    set_active_by_history(mi, st, r != nullptr);
    I.busy = true;                                              // C04: block immediate handling during the entry cascade
    I.running = true;
    try {
        call(K_N, own_site(mi), fsm_mi, info_static(e, trigger));   // C02/C07: the sub-machine's own entry first
        if (r) for (int t : r->tgts) I.active[S(t).region] = S(t).lib_id;   // C09: named regions overridden
        b_internal_start(mi, e, trigger);
        if (r && r->tkind == TK_ENTRY_PT) b_process_internal(mi, MEv{(int16_t)(trigger >= 0 ? trigger : e.ev), e.occ}, SRC_DIRECT); // second leg
    } catch (Injected&) {
        I.busy = false;                                         // C12: not wedged after an exception
        throw;
    }
    I.busy = false;
    // C10: completion transitions of the states just entered fire before anything that was queued meanwhile
    b_completion(mi, SRC_DEFERRED);
    if (M(mi).has_deferred) b_handle_deferred(mi, true);
    b_process_msg_queue(mi);
}

// ------------------------------------------------------------------------------------------ [M] backmp11
bool Model::m_is_event_deferred(int mi, int ev) const {
    // C05 [M]: any active state at any depth defers => deferred for all regions
    if (!inst_[mi].running) return false;
    const MInst& I = inst_[mi];
    for (size_t r = 0; r < I.active.size(); ++r) {
        const DState& s = S(state_of(mi, I.active[r]));
        for (int x : s.deferred)
            if (x == ev) {
                if (s.cond_defer < 0) return true;
                if (env().cond_bit(s.cond_defer)) return true;
            }
        if (s.kind == SK_SUB && m_is_event_deferred(s.sub, ev)) return true;
    }
    return false;
}
void Model::m_do_defer(int mi, const MEv& e, bool next_rtc_seq) {
    MInst& I = inst_[mi];
    uint16_t seq = next_rtc_seq ? I.cur_seq_cnt : (uint16_t)(I.cur_seq_cnt - 1);
    I.pool.push_back(PItem{0, e, seq, false, -1, -1});
}
int Model::m_process_internal(int mi, const MEv& e, int info_) {
    MInst& I = inst_[mi];
    if (blocked_m(mi, e.ev)) return R_TRUE;                                        // C11
    if (info_ != INFO_POOL) {
        if (I.busy || (info_ != INFO_SUB && m_is_event_deferred(mi, e.ev))) {       // C04 / C05
            m_do_defer(mi, e, false);
            return R_DEFERRED;
        }
        I.cur_seq_cnt += 1;
    }
    I.busy = true;
    int result;
    try {
        result = m_do_process_event(mi, e, info_);
    } catch (Injected&) {
        call(K_EC, mi, mi, info(e));                                               // C12
        result = R_FALSE;
    }
    I.busy = false;
    if (info_ != INFO_POOL) m_process_pool(mi, SIZE_MAX);
    return result;
}
int Model::m_do_process_event(int mi, const MEv& e, int info_) {
    MInst& I = inst_[mi];
    int result = R_FALSE;
    for (size_t r = 0; r < I.active.size(); ++r) {
        int s = state_of(mi, I.active[r]);
        result |= run_chain(mi, (int)r, s, e);
    }
    if (!(result & (R_TRUE | R_DEFERRED))) {
        std::vector<int> rows;
        for (int k = (int)M(mi).irows.size() - 1; k >= 0; --k)
            if (matches(d_->rows[M(mi).irows[k]].trigger, e.ev)) rows.push_back(M(mi).irows[k]);
        int res = R_FALSE;
        for (int rid : rows) {
            int r = take_row(mi, 0, rid, e);
            if (rows.size() == 1 && !dl_.ct) { res = r; break; }
            res |= r;
            if (res & (R_TRUE | R_DEFERRED)) { res &= (R_TRUE | R_DEFERRED); break; }
        }
        result |= res;
    }
    if (!result && info_ != INFO_SUB)
        for (size_t r = 0; r < I.active.size(); ++r) call(K_NT, mi, mi, info(e), I.active[r]);
    return result;
}
size_t Model::m_process_pool(int mi, size_t max_events) {
    MInst& I = inst_[mi];
    if (I.pool.empty() || I.busy) return 0;
    return m_do_process_pool(mi, max_events);
}
size_t Model::m_do_process_pool(int mi, size_t max_events) {
    MInst& I = inst_[mi];
    size_t idx = 0, processed = 0;
    do {
        if (idx >= I.pool.size()) break;
        if (I.pool[idx].marked) { I.pool.erase(I.pool.begin() + idx); continue; }
        PItem it = I.pool[idx];
        // C10: armed completion occurrences belong to the step of the event that armed them: they are
        // processed even when the limit of a single-step drain is reached and are not counted (C04)
        bool is_completion = it.kind == 1;
        if (processed == max_events && !is_completion) break;
        bool dispatched = false;
        int result = 0;
        if (is_completion) {
            I.pool[idx].marked = true;
            result = m_completion(mi, it.state, it.region);
            dispatched = true;
        } else {
            if (it.seq == I.cur_seq_cnt || m_is_event_deferred(mi, it.e.ev)) dispatched = false;  // C05 retention
            else {
                I.pool[idx].marked = true;
                size_t before = I.pool.size();
                result = m_process_internal(mi, it.e, INFO_POOL);
                dispatched = true;
                if ((result & R_DEFERRED) && !dl_.q_mp_action_defer_requeue && idx < I.pool.size()) {
                    // C05: an occurrence that is deferred again keeps its place among the pending ones
                    // (arrival order); the implementation appends a fresh copy instead (known finding KF-2)
                    bool requeued = false;
                    for (size_t k = I.pool.size(); k-- > before && k < I.pool.size(); )
                        if (I.pool[k].kind == 0 && I.pool[k].e.occ == it.e.occ && !I.pool[k].marked) {
                            I.pool.erase(I.pool.begin() + k);
                            requeued = true;
                        }
                    if (requeued) { I.pool[idx].marked = false; I.pool[idx].seq = I.cur_seq_cnt; }
                }
            }
        }
        if (!dispatched) { ++idx; continue; }
        if (result != R_DEFERRED && !is_completion) ++processed;
        idx = 0;
        if (!(result & R_DEFERRED)) I.cur_seq_cnt += 1;
    } while (idx < I.pool.size());
    return processed;
}
int Model::m_completion(int mi, int state, int region) {
    MInst& I = inst_[mi];
    // C10 / C12: a completion occurrence whose source is no longer the active state of its region (an exception
    // aborted the step that armed it and it stayed in the pool) completes nothing (fix F-T)
    if (I.active[region] != S(state).lib_id) return R_FALSE;
    if (M(mi).has_blocking && I.running && (has_internal_flag(mi, 0, true) || has_internal_flag(mi, 1, true))) return R_TRUE;
    I.busy = true;
    int result = R_FALSE;
    MEv e{EV_NONE, OCC_NONE};
    try {
        std::vector<int> rows;
        const DMachine& m = M(mi);
        for (int k = (int)m.rows.size() - 1; k >= 0; --k) {
            const DRow& r = d_->rows[m.rows[k]];
            if (r.src_owner == state && r.trigger == TRIG_COMPLETION) rows.push_back(m.rows[k]);
        }
        for (int rid : rows) {
            int r = take_row(mi, region, rid, e);
            if (rows.size() == 1) { result = r; break; }
            result |= r;
            if (result & (R_TRUE | R_DEFERRED)) { result &= (R_TRUE | R_DEFERRED); break; }
        }
    } catch (Injected&) {
        call(K_EC, mi, mi, info(e));
        result = R_FALSE;
    }
    I.busy = false;
    return result;
}
void Model::m_entry_completed(int mi, int s, int region) {
    if (S(s).kind == SK_SUB) return;
    const DMachine& m = M(mi);
    for (int rid : m.rows) {
        const DRow& r = d_->rows[rid];
        if (r.trigger == TRIG_COMPLETION && r.src_owner == s) {
            inst_[mi].pool.push_front(PItem{1, MEv{EV_NONE, OCC_NONE}, 0, false, s, region});   // C10: before any other event
            return;
        }
    }
}
void Model::m_on_entry(int mi, const DRow* r, const MEv& e, int trigger, int fsm_mi) {
    MInst& I = inst_[mi];
    I.running = true;
    I.busy = true;
    try {
        call(K_N, own_site(mi), fsm_mi, info_static(e, trigger), 0, M(mi).parent < 0);
        int st = trigger >= 0 ? trigger : e.ev;
        bool all_regions = r && r->tgts.size() == I.active.size();
        if (!all_regions) set_active_by_history(mi, st, false);
        if (r) for (int t : r->tgts) I.active[S(t).region] = S(t).lib_id;
        for (size_t reg = 0; reg < I.active.size(); ++reg) {
            int s = state_of(mi, I.active[reg]);
            if (S(s).kind == SK_SUB) m_on_entry(S(s).sub, nullptr, e, trigger, mi);
            else enter_simple(mi, s, e, trigger);
            m_entry_completed(mi, s, (int)reg);
        }
    } catch (Injected&) {
        I.busy = false;                                         // C12: not wedged after an exception
        throw;
    }
    I.busy = false;
    m_process_pool(mi, SIZE_MAX);
    if (r && r->tkind == TK_ENTRY_PT) m_process_internal(mi, MEv{(int16_t)(trigger >= 0 ? trigger : e.ev), e.occ}, INFO_DIRECT);
}

// ------------------------------------------------------------------------------------------ public API
void Model::start() {
    MEv e{EV_START, OCC_START};
    if (mp()) {
        if (!inst_[0].running) m_on_entry(0, nullptr, e, -1, 0);
        return;
    }
    MInst& I = inst_[0];
    const DMachine& m = M(0);
    for (size_t r = 0; r < m.regions.size(); ++r) I.active[r] = S(m.regions[r][0]).lib_id;
    I.running = true;
    bool guard_busy = !dl_.q_start_not_busy;
    if (guard_busy) I.busy = true;                                 // C04: also during start()
    call(K_N, own_site(0), 0, info(e), 0, true);
    for (size_t r = 0; r < I.active.size(); ++r) {
        int s = state_of(0, I.active[r]);
        if (S(s).kind == SK_SUB) b_do_entry(S(s).sub, nullptr, e, -1, 0);
        else enter_simple(0, s, e, -1);
    }
    if (guard_busy) I.busy = false;
    b_completion(0, SRC_DEFAULT);
    if (guard_busy) b_process_msg_queue(0);
}
void Model::stop() {
    MEv e{EV_STOP, OCC_STOP};
    if (mp()) {
        if (inst_[0].running) { exit_machine(0, e, -1, 0); inst_[0].running = false; }
        return;
    }
    exit_machine(0, e, -1, 0);
    inst_[0].running = false;
}
int Model::process(int ev, int32_t occ) {
    MEv e{(int16_t)ev, occ};
    return mp() ? m_process_internal(0, e, INFO_DIRECT) : b_process_internal(0, e, SRC_DIRECT);
}
int Model::sub_process(int mach, int ev, int32_t occ) {
    MEv e{(int16_t)ev, occ};
    return mp() ? m_process_internal(mach, e, INFO_DIRECT) : b_process_internal(mach, e, SRC_DIRECT);
}
void Model::enqueue(int ev, int32_t occ) {
    MEv e{(int16_t)ev, occ};
    if (mp()) m_do_defer(0, e, false);
    else inst_[0].q_msg.push_back(BQItem{e, SRC_MSGQ});
}
void Model::defer(int ev, int32_t occ) {
    MEv e{(int16_t)ev, occ};
    if (mp()) m_do_defer(0, e, inst_[0].busy);
    else if (M(0).has_deferred) b_defer(0, e);
}
void Model::drain() {
    if (mp()) m_process_pool(0, SIZE_MAX);
    else {
        MInst& I = inst_[0];
        while (!I.q_msg.empty()) {
            BQItem it = I.q_msg.front();
            I.q_msg.pop_front();
            b_process_internal(0, it.e, it.source);
        }
    }
}
void Model::drain_one() {
    if (mp()) m_process_pool(0, 1);
    else {
        MInst& I = inst_[0];
        if (I.q_msg.empty()) return;
        BQItem it = I.q_msg.front();
        I.q_msg.pop_front();
        b_process_internal(0, it.e, it.source);
    }
}
void Model::assign_from(const IMachine& o) {
    const Model& m = static_cast<const Model&>(o);
    int r = rep_;
    *this = m;
    rep_ = r;
}
IMachine* Model::move_out() {
    if (!mp()) return nullptr;
    Model* n = new Model(*this);
    for (auto& I : inst_) I.pool.clear();      // the pending events went with the move
    return n;
}
bool Model::move_assign_from(IMachine& o) {
    if (!mp()) return false;
    assign_from(o);
    for (auto& I : static_cast<Model&>(o).inst_) I.pool.clear();
    return true;
}
bool Model::save(int, std::string& out) {
    if (mp() || !d_->serializable) return false;
    // C16: active ids, history memory and opted-in state data of every level
    out.clear();
    for (auto& I : inst_) {
        for (int a : I.active) out += std::to_string(a) + ",";
        out += "|";
        for (int a : I.hist) out += std::to_string(a) + ",";
        out += ";";
    }
    out += "#";
    for (size_t g = 0; g < data_.size(); ++g) out += std::to_string(S((int)g).has_data ? data_[g] : 0) + ",";
    return true;
}
bool Model::load(int, const std::string& in) {
    if (mp()) return false;
    size_t p = 0;
    auto num = [&](int& v) {
        size_t q = in.find(',', p);
        v = atoi(in.substr(p, q - p).c_str());
        p = q + 1;
    };
    for (auto& I : inst_) {
        for (auto& a : I.active) num(a);
        ++p;
        for (auto& a : I.hist) num(a);
        ++p;
        I.busy = false;
        I.running = true;
    }
    ++p;
    for (size_t g = 0; g < data_.size(); ++g) { int v; num(v); if (S((int)g).has_data) data_[g] = v; }
    return true;
}
void Model::snapshot(Snap& s) const {
    size_t n = inst_.size();
    s.active.assign(n, {}); s.hist.assign(n, {}); s.qmsg.assign(n, -1); s.qdef.assign(n, -1);
    s.busy.assign(n, -1); s.running.assign(n, -1);
    for (size_t mi = 0; mi < n; ++mi) {
        const MInst& I = inst_[mi];
        s.active[mi] = I.active;
        s.busy[mi] = I.busy ? 1 : 0;
        if (mp()) {
            int c = 0;
            for (auto& p : I.pool) if (!p.marked) ++c;
            s.qmsg[mi] = c; s.qdef[mi] = 0;
            s.running[mi] = I.running ? 1 : 0;
            if (M((int)mi).history != H_NONE) s.hist[mi] = I.hist;
        } else {
            s.qmsg[mi] = (int)I.q_msg.size();
            s.qdef[mi] = M((int)mi).has_deferred ? (int)I.q_def.size() : 0;
            s.hist[mi] = M((int)mi).history != H_NONE ? I.hist : std::vector<int>();
        }
    }
}
long Model::live_tracked() const {
    long n = 0;
    auto tr = [&](int ev) { return ev >= 0 && d_->events[ev].size_class >= 2 && d_->events[ev].size_class <= 6; };
    for (auto& I : inst_) {
        for (auto& q : I.q_msg) if (tr(q.e.ev)) ++n;
        for (auto& q : I.q_def) if (tr(q.e.ev)) ++n;
        for (auto& q : I.pool) if (q.kind == 0 && tr(q.e.ev)) ++n;
    }
    return n;
}
void Model::clear_queue(int which) {
    if (mp()) { if (which == 0) inst_[0].pool.clear(); return; }
    if (which == 0) inst_[0].q_msg.clear();
    if (which == 1 && M(0).has_deferred) inst_[0].q_def.clear();
}

} // namespace sim
