// sim/puml_tok.cpp -- C14 tokenizer clause: every transition line of the documented PlantUML grammar is split
// into exactly its source, target, event, action list and guard, whatever the arrow length, the blank padding
// and the relative order of the '/ actions' and '[guard]' parts.  This is seeded input generation over a pure
// function (front::puml::detail::parse_row, real constexpr code called at run time), not simulation; it is
// reported as such in the evidence of C14.
#include <boost/msm/front/puml/puml.hpp>
#include <cstdio>
#include <cstdlib>
#include <cstring>
#include <string>
#include <vector>
#include "plan.hpp"

using namespace sim;
namespace pd = boost::msm::front::puml::detail;

struct Line { std::string text, src, tgt, ev, acts, guard; bool internal; };

static std::string ident(Rng& r) {
    static const char* first = "ABCDEFGHIJKLMNOPQRSTUVWXYZabcdefghijklmnopqrstuvwxyz_";
    static const char* rest = "ABCDEFGHIJKLMNOPQRSTUVWXYZabcdefghijklmnopqrstuvwxyz_0123456789";
    std::string s(1, first[r.below(53)]);
    int n = r.below(10);
    for (int i = 0; i < n; ++i) s += rest[r.below(63)];
    return s;
}
static std::string blanks(Rng& r, int lo, int hi) {
    std::string s;
    int n = r.range(lo, hi);
    for (int i = 0; i < n; ++i) s += r.chance(0.75) ? ' ' : '\t';
    return s;
}
static std::string guard_expr(Rng& r, int depth) {
    // E := T ('||' T)* ; T := F ('&&' F)* ; F := '!'? (name | '(' E ')')   one level of parentheses
    auto factor = [&](int d) {
        std::string s = r.chance(0.25) ? "!" : "";
        if (d > 0 && r.chance(0.3)) return s + "(" + blanks(r, 0, 1) + guard_expr(r, 0) + blanks(r, 0, 1) + ")";
        return s + ident(r);
    };
    std::string e;
    int nt = 1 + r.below(3);
    for (int t = 0; t < nt; ++t) {
        if (t) e += blanks(r, 0, 2) + "||" + blanks(r, 0, 2);
        int nf = 1 + r.below(3);
        for (int f = 0; f < nf; ++f) {
            if (f) e += blanks(r, 0, 2) + "&&" + blanks(r, 0, 2);
            e += factor(depth);
        }
    }
    return e;
}
static std::string strip(const std::string& s) {
    size_t a = s.find_first_not_of(" \t"), b = s.find_last_not_of(" \t");
    return a == std::string::npos ? std::string() : s.substr(a, b - a + 1);
}
static Line gen_line(Rng& r) {
    Line l;
    l.src = ident(r);
    l.internal = r.chance(0.2);
    l.tgt = l.internal ? l.src : ident(r);
    std::string arrow(r.range(1, 4), '-');
    arrow += ">";
    bool has_colon = r.chance(0.9);
    l.text = blanks(r, 0, 6) + l.src + blanks(r, 0, 4) + arrow + blanks(r, 0, 4) + l.tgt;
    if (!has_colon && !l.internal) { l.text += blanks(r, 0, 3); return l; }
    l.text += blanks(r, 0, 4) + ":" + blanks(r, 0, 3);
    bool kleene = r.chance(0.05), anon = !l.internal && r.chance(0.1);
    l.ev = anon ? "" : kleene ? "*" : ident(r);
    l.text += (l.internal ? "-" : "") + l.ev;
    int na = r.below(4);
    std::string acts;
    for (int i = 0; i < na; ++i) { if (i) acts += blanks(r, 0, 2) + "," + blanks(r, 0, 2); acts += ident(r); }
    l.acts = acts;
    if (r.chance(0.6)) l.guard = guard_expr(r, 1);
    std::string apart = na ? "/" + blanks(r, 0, 3) + acts : "";
    std::string gpart = l.guard.empty() ? "" : "[" + blanks(r, 0, 2) + l.guard + blanks(r, 0, 2) + "]";
    if (!apart.empty() && !gpart.empty() && r.chance(0.5)) l.text += blanks(r, 1, 4) + gpart + blanks(r, 0, 4) + apart;
    else l.text += blanks(r, 1, 4) + apart + blanks(r, apart.empty() ? 0 : 0, 4) + gpart;
    l.text += blanks(r, 0, 4);
    return l;
}

int main(int argc, char** argv) {
    uint64_t seed = argc > 1 ? strtoull(argv[1], nullptr, 10) : 1;
    long count = argc > 2 ? atol(argv[2]) : 10000;
    Rng r(mix(seed, 0x70756d6c));
    long bad = 0, with_guard = 0, with_actions = 0, guard_first = 0, internal = 0;
    std::vector<std::string> samples;
    for (long i = 0; i < count; ++i) {
        Line l = gen_line(r);
        pd::Transition t = pd::parse_row(l.text);
        std::string src(t.source), tgt(t.target), ev(t.event), g(t.guard), a(t.action);
        bool ok = src == l.src && ev == l.ev && strip(g) == strip(l.guard) && strip(a) == strip(l.acts);
        if (l.internal) ok = ok && tgt.empty();          // internal rows: '-event', no target
        else ok = ok && tgt == l.tgt;
        if (!l.guard.empty()) ++with_guard;
        if (!l.acts.empty()) ++with_actions;
        if (l.internal) ++internal;
        size_t gp = l.text.find('['), ap = l.text.find('/');
        if (gp != std::string::npos && ap != std::string::npos && gp < ap) ++guard_first;
        if (samples.size() < 3 && !l.guard.empty() && !l.acts.empty()) samples.push_back(l.text);
        if (!ok) {
            if (bad < 5) {
                JV j = JV::obj();
                j.set("line", l.text); j.set("index", (long long)i);
                JV e = JV::obj(); e.set("source", l.src); e.set("target", l.internal ? "" : l.tgt); e.set("event", l.ev); e.set("actions", strip(l.acts)); e.set("guard", strip(l.guard));
                JV o = JV::obj(); o.set("source", src); o.set("target", tgt); o.set("event", ev); o.set("actions", a); o.set("guard", g);
                j.set("expected", e); j.set("observed", o);
                printf("MISMATCH %s\n", j.dump().c_str());
            }
            ++bad;
        }
    }
    JV s = JV::obj();
    s.set("lines", count); s.set("mismatches", bad); s.set("with_guard", with_guard); s.set("with_actions", with_actions);
    s.set("guard_before_actions", guard_first); s.set("internal", internal); s.set("seed", (long long)seed);
    JV sm = JV::arr();
    for (auto& x : samples) sm.push(x);
    s.set("samples", sm);
    printf("TOKSTATS %s\n", s.dump().c_str());
    return bad ? 1 : 0;
}
