#include "oracle.hpp"
#include <tuple>
#include <functional>
#include <algorithm>
#include "model.hpp"
#include <algorithm>

namespace sim {

static uint64_t h64(uint64_t h, uint64_t v) { h ^= v + 0x9e3779b97f4a7c15ull + (h << 6) + (h >> 2); return h; }

// ---------------------------------------------------------------------------------------------
// static facts about the spec used by the attribution ladder
struct Facts {
    bool nested = false, regions = false, pseudo = false, history = false, completion = false, defer = false,
         blocking = false, hierarchy_events = false, flags = false, internal = false;
    std::vector<uint8_t> deferrable; // per event type
    std::vector<uint8_t> leaf_internal, action_internal; // guard leaf / action used by a row of an sm-internal or state-local table
};
static Facts facts_of(const Desc& d) {
    Facts f;
    f.deferrable.assign(d.events.size(), 0);
    f.nested = d.machines.size() > 1;
    for (auto& m : d.machines) {
        if (m.regions.size() > 1) f.regions = true;
        if (m.history != H_NONE) f.history = true;
        if (m.has_completion) f.completion = true;
        if (m.has_blocking) f.blocking = true;
        if (!m.irows.empty()) f.internal = true;
    }
    for (auto& s : d.states) {
        if (s.kind == SK_ENTRY_PT || s.kind == SK_EXIT_PT) f.pseudo = true;
        if (!s.flags.empty()) f.flags = true;
        if (!s.irows.empty()) f.internal = true;
        for (int e : s.deferred) { f.defer = true; f.deferrable[e] = 1; }
    }
    for (auto& r : d.rows) {
        if (r.tkind == TK_DIRECT || r.tkind == TK_FORK || r.tkind == TK_ENTRY_PT) f.pseudo = true;
        if (r.trigger == TRIG_KLEENE) f.hierarchy_events = true;
        for (int a : r.actions)
            if (a == ACT_DEFER) {
                f.defer = true;
                if (r.trigger >= 0) f.deferrable[r.trigger] = 1;
                else if (r.trigger == TRIG_KLEENE) for (auto& x : f.deferrable) x = 1;
            }
    }
    for (auto& e : d.events) if (e.base >= 0) f.hierarchy_events = true;
    f.leaf_internal.assign(d.nleaves, 0);
    f.action_internal.assign(d.nactions, 0);
    std::function<void(int)> mark = [&](int node) {
        if (node < 0) return;
        const DGuardNode& g = d.gnodes[node];
        if (g.op == 0) { if (g.leaf >= 0 && g.leaf < d.nleaves) f.leaf_internal[g.leaf] = 1; return; }
        mark(g.a); if (g.op >= 2) mark(g.b);
    };
    for (auto& r : d.rows)
        if (r.table != 0) {
            mark(r.guard);
            for (int a : r.actions) if (a >= 0 && a < d.nactions) f.action_internal[a] = 1;
        }
    return f;
}

static void add(std::vector<std::string>& v, const char* p) {
    for (auto& x : v) if (x == p) return;
    v.push_back(p);
}

// ---------------------------------------------------------------------------------------------
// attribution ladder (DESIGN.md section 6)
static void attribute(const Desc& d, const Facts& f, const Plan& plan, const World& real, const World& model,
                      Outcome& o, bool hist_via_serialize = false) {
    const auto& T = real.env.trace;
    const auto& X = model.env.trace;
    size_t i = o.dv.index;
    const Rec* O = i < T.size() ? &T[i] : nullptr;
    const Rec* E = i < X.size() ? &X[i] : nullptr;
    // run context before the divergence (from the model trace, which is the common prefix)
    bool after_throw = false, after_copy = false, after_load = false, posts_in_op = false, throw_in_op = false;
    int opi = o.dv.op;
    for (size_t k = 0; k < i && k < X.size(); ++k) {
        if (X[k].kind == K_THROW) { after_throw = true; if (opi >= 0 && k >= model.op_index[opi]) throw_in_op = true; }
        if (X[k].kind == K_POST && opi >= 0 && k >= model.op_index[opi]) posts_in_op = true;
        if (X[k].kind == K_OP) {
            if (X[k].val == OP_COPY || X[k].val == OP_ASSIGN || X[k].val == OP_MOVE || X[k].val == OP_MOVE_ASSIGN) after_copy = true;
            if (X[k].val == OP_SAVELOAD) after_load = true;
        }
    }
    auto beh = [](const Rec* r) { return r && r->kind <= K_EC; };
    auto& P = o.props;
    const Op* op = (opi >= 0 && opi < (int)plan.ops.size()) ? &plan.ops[opi] : nullptr;
    bool stored_api = op && (op->kind == OP_ENQUEUE || op->kind == OP_DRAIN || op->kind == OP_DRAIN1);
    // the diverging record is the entry of a sub-state during the entry cascade of its sub-machine: which sub-state gets
    // active on (re-)entry is C08's subject under every history policy, "none" included
    auto entry_cascade = [&]() {
        for (const Rec* r : {O, E}) {
            if (!r || r->kind != K_N || r->site < 0 || r->site >= (int)d.states.size()) continue;
            int own = d.machines[d.states[r->site].machine].parent_state;
            if (own < 0) continue;
            for (size_t k = i; k-- > 0 && k < X.size(); ) {
                if (X[k].kind == K_POST || X[k].kind == K_THROW) continue;
                if (X[k].kind != K_N) break;
                if (X[k].site == own) return true;
            }
        }
        return false;
    };
    // a guard leaf or action of a state-local / sm-internal table row behaves differently: those tables are one of the
    // front-end forms C14 names
    auto internal_table_row = [&]() {
        for (const Rec* r : {O, E}) {
            if (!r) continue;
            if (r->kind == K_G && r->site >= 0 && r->site < (int)f.leaf_internal.size() && f.leaf_internal[r->site]) return true;
            if (r->kind == K_A && r->site >= 0 && r->site < (int)f.action_internal.size() && f.action_internal[r->site]) return true;
        }
        return false;
    };
    auto add_context = [&]() {
        if (entry_cascade()) add(P, "C08");
        if (internal_table_row()) add(P, "C14");
        if (after_throw) add(P, "C12");
        if (after_copy) add(P, "C15");
        if (after_load) add(P, "C16");
    };
    if (real.aborted && (!O || !E || (O->kind == K_ESC && O->val == 1))) {
        o.level = "X"; o.detail = "library assertion fired: " + real.abort_msg;
        add(P, "C03"); add(P, "C02"); add(P, "C01"); add_context();
        return;
    }
    uint8_t ko = O ? O->kind : 255, ke = E ? E->kind : 255;
    if (beh(O) || beh(E) || ko == K_POST || ke == K_POST || ko == K_THROW || ke == K_THROW) {
        int occ_o = O ? O->occ : OCC_UNKNOWN, occ_e = E ? E->occ : OCC_UNKNOWN;
        bool both = beh(O) && beh(E);
        // one side has finished the step while the other goes on with the occurrence that was being
        // processed: that is a selection / execution difference, not a different occurrence
        if (!both && (beh(O) || beh(E))) {
            const Rec* B = beh(O) ? O : E;
            const Rec* prev = nullptr;
            for (size_t k = i; k-- > 0 && k < X.size(); ) if (X[k].kind <= K_EC) { prev = &X[k]; break; } else if (X[k].kind == K_OP) break;
            bool same_occ = prev && prev->occ == B->occ;
            bool direct_first = !prev && op && (op->kind == OP_PROCESS || op->kind == OP_SUBPROCESS) && B->occ == op->occ;
            if (same_occ || direct_first) {
                bool selk = B->kind == K_G || B->kind == K_NT || B->kind == K_A;
                if (B->kind == K_EC) { o.level = "B"; add(P, "C12"); o.detail = "exception_caught on one side only"; add_context(); return; }
                if (selk) {
                    o.level = "B";
                    o.detail = std::string(beh(O) ? "implementation" : "model") + " consults / takes a further candidate for the same occurrence";
                    add(P, "C01");
                    if (f.nested) add(P, "C07");
                    add(P, "C06");      // one side goes on consulting candidates: the occurrence was offered to a region more (or less) than once
                    if (f.hierarchy_events) add(P, "C18");
                    if (B->occ == OCC_NONE) add(P, "C10");
                    if (f.pseudo) add(P, "C09");
                    if (f.defer) add(P, "C05");
                    if (f.blocking) add(P, "C11");
                    if (throw_in_op) add(P, "C12");
                } else {
                    o.level = "C";
                    o.detail = std::string(beh(O) ? "implementation" : "model") + " runs a further exit/entry for the same occurrence";
                    add(P, "C02");
                    if (f.nested) add(P, "C07");
                    if (f.history) add(P, "C08");
                    if (f.pseudo) add(P, "C09");
                    if (throw_in_op) add(P, "C12");
                }
                add_context();
                return;
            }
        }
        if (both && O->rep != E->rep) { o.level = "A"; add(P, "C15"); add(P, "C04"); o.detail = "behaviour invoked on another replica"; return; }
        if (both && (O->val >= 1000 || E->val >= 1000) && (O->kind == K_N || O->kind == K_X)) { o.level = "A"; add(P, "C15"); o.detail = "state object of another replica used"; return; }
        if (!both || occ_o != occ_e) {
            // level A: which occurrence is dispatched next / at all
            o.level = "A";
            o.detail = "different occurrence dispatched (or one side silent)";
            bool compl_ = occ_o == OCC_NONE || occ_e == OCC_NONE;
            bool deferrable = false;
            for (const Rec* r : {O, E}) if (beh(r) && r->evtype >= 0 && r->evtype < (int)f.deferrable.size() && f.deferrable[r->evtype]) deferrable = true;
            bool ec = (O && O->kind == K_EC) || (E && E->kind == K_EC);
            // the behaviour runs at the expected place but sees a default-constructed event object: the stored copy lost its value
            if (both && O->kind == E->kind && O->site == E->site && O->occ == OCC_UNKNOWN && E->occ != OCC_UNKNOWN) {
                add(P, "C18"); add(P, "C20");
                o.detail = "the event object handed to the behaviour does not carry the submitted value (default-constructed copy)";
            }
            if (compl_) add(P, "C10");
            if (deferrable && f.defer) add(P, "C05");
            if (f.blocking) add(P, "C11");
            if (ec || throw_in_op) add(P, "C12");
            if (f.pseudo) add(P, "C09");
            if (posts_in_op || stored_api || (!compl_ && !(deferrable && f.defer))) add(P, "C04");
            if (!posts_in_op && !stored_api && !compl_) { add(P, "C01"); add(P, "C06"); if (f.nested) add(P, "C07"); }
            add_context();
            return;
        }
        // same occurrence
        if (O->kind == K_EC || E->kind == K_EC) { o.level = "B"; add(P, "C12"); o.detail = "exception_caught mismatch"; return; }
        bool sel = O->kind == K_G || E->kind == K_G || O->kind == K_NT || E->kind == K_NT ||
                   (O->kind == K_A && E->kind == K_A && O->site != E->site);
        bool same_pos = O->kind == E->kind && O->site == E->site && O->mach == E->mach;
        if (same_pos && O->kind == K_G && O->val != E->val) { o.level = "H"; o.detail = "guard value mismatch (harness)"; add(P, "HARNESS"); return; }
        if (same_pos && O->kind == K_NT && O->val != E->val) { o.level = "B"; add(P, "C06"); add(P, "C03"); o.detail = "no_transition reports another state id"; add_context(); return; }
        if (same_pos && (O->evtype != E->evtype || O->chk != E->chk || O->evdyn != E->evdyn)) {
            o.level = "E"; add(P, "C18"); if (f.pseudo) add(P, "C09"); add(P, "C20");
            o.detail = "event type / payload seen by the behaviour differs"; add_context(); return;
        }
        if (same_pos && O->obs != E->obs) {
            o.level = "C"; add(P, "C19"); add(P, "C17"); add(P, "C03");
            // the configuration that was activated differs (the ids of the regions are set before the entries run)
            if (O->kind == K_N || O->kind == K_X) { add(P, "C02"); if (f.history) add(P, "C08"); if (f.pseudo) add(P, "C09"); if (f.nested) add(P, "C07"); }
            // the configuration changed although the last thing that happened was a guard that rejected (C02: "no state change at all")
            for (size_t k = i; k-- > 0 && k < X.size(); ) {
                if (X[k].kind == K_POST || X[k].kind == K_THROW) continue;
                if (X[k].kind == K_G && X[k].val == 0) add(P, "C02");
                break;
            }
            o.detail = "active state ids observed inside the behaviour differ"; add_context(); return;
        }
        if (sel) {
            o.level = "B";
            o.detail = "transition selection differs (guards consulted / row taken / no_transition)";
            add(P, "C01");
            if (f.nested) add(P, "C07");
            if (f.regions || f.nested || O->kind == K_NT || E->kind == K_NT) add(P, "C06");   // offering an occurrence to the regions of every active level
            if (f.hierarchy_events) add(P, "C18");
            if (occ_o == OCC_NONE) add(P, "C10");
            if (f.pseudo) add(P, "C09");
            if (f.defer) add(P, "C05");
            if (f.blocking) add(P, "C11");
            if (throw_in_op) add(P, "C12");
            add_context();
            return;
        }
        o.level = "C";
        o.detail = "behaviours executed for the taken transition differ (order / set)";
        add(P, "C02");
        if (f.nested) add(P, "C07");
        if (f.history) add(P, "C08");
        if (f.pseudo) add(P, "C09");
        if (throw_in_op) add(P, "C12");
        if (occ_o == OCC_START || occ_o == OCC_STOP) add(P, "C03");
        add_context();
        return;
    }
    // non-behaviour records
    uint8_t k = O ? ko : ke;
    if (ko != ke && (ko == K_HIST || ke == K_HIST)) k = K_HIST;   // a HIST record on one side only
    o.level = "D";
    switch (k) {
        case K_RET: o.level = "B"; add(P, "C06"); add(P, "C01"); if (f.defer) add(P, "C05"); if (f.blocking) add(P, "C11");
            if (f.nested) add(P, "C07"); o.detail = "return code differs"; break;
        case K_SNAP: add(P, "C03"); add(P, "C02"); if (f.history) add(P, "C08"); if (f.pseudo) add(P, "C09"); if (f.nested) add(P, "C07");
            o.detail = "active configuration at quiescence differs"; break;
        case K_Q: add(P, "C04"); if (f.defer) add(P, "C05"); if (f.blocking) add(P, "C11"); add(P, "C20");
            o.detail = "pending queue sizes differ"; break;
        case K_BUSY: add(P, "C12"); add(P, "C04"); o.detail = "event-processing flag at quiescence differs"; break;
        case K_HIST: add(P, "C08");
            // back / back11: the probe reads the history through the public serialize(), so the difference is
            // also a statement about what an archive of this machine contains
            if (hist_via_serialize && d.serializable) add(P, "C16");
            o.detail = "history memory differs"; break;
        case K_FLAG: add(P, "C17"); if (f.blocking) add(P, "C11"); o.detail = "flag query answer differs"; break;
        case K_VIS: case K_ACT: add(P, "C03"); if (f.nested) add(P, "C07"); o.detail = "introspection answer differs"; break;
        case K_DATA: add(P, "C16"); add(P, "C15"); o.detail = "state data differs"; break;
        case K_ESC: add(P, "C12"); o.detail = "exception escaped the API"; break;
        case K_LIVE: add(P, "C20"); if (after_copy) add(P, "C15");
            o.detail = ((O ? O->site : E->site) == 1) ? "instance registry reports a lifetime error: " + registry().first_error
                                                      : "number of live stored event instances differs from the number of pending occurrences"; break;
        case K_OP: o.level = "A"; add(P, "C04"); if (f.completion) add(P, "C10"); if (f.defer) add(P, "C05"); if (f.blocking) add(P, "C11");
            if (f.pseudo) add(P, "C09"); if (!posts_in_op && !stored_api) { add(P, "C01"); add(P, "C06"); }
            if (throw_in_op) add(P, "C12");
            o.detail = "one side performed more behaviour invocations in the op"; break;
        default: add(P, "C03"); o.detail = "observation differs";
    }
    add_context();
}

// ---------------------------------------------------------------------------------------------
// model-free invariants over the real trace
static bool check_invariants(const Desc& d, const Plan& plan, const World& real, Outcome& o) {
    const auto& T = real.env.trace;
    int cur_op = -1;
    const Op* op = nullptr;
    bool any_throw = false;
    bool post_in_op = false;
    // I2 ledger: per replica, per state site
    size_t ns = d.states.size() + 1;
    std::vector<std::vector<int>> ledger;
    std::vector<uint8_t> ledger_valid;
    auto ensure = [&](int rep) {
        if (rep < 0) return;
        if ((int)ledger.size() <= rep) { ledger.resize(rep + 1, std::vector<int>(ns, 0)); ledger_valid.resize(rep + 1, 1); }
    };
    for (size_t i = 0; i < T.size(); ++i) {
        const Rec& r = T[i];
        if (r.kind == K_OP) {
            cur_op = r.site;
            op = cur_op < (int)plan.ops.size() ? &plan.ops[cur_op] : nullptr;
            post_in_op = false;
            if (op && (op->kind == OP_COPY || op->kind == OP_MOVE)) {
                // the new replica index is the next free one
            }
            continue;
        }
        if (r.kind == K_THROW) any_throw = true;
        if (r.kind == K_POST && r.site == API_PROCESS) post_in_op = true;
        if (r.kind <= K_EC && op) {
            // I5: an op on one replica never invokes behaviours of another replica (C15)
            if (r.rep != op->on) {
                o.verdict = V_INVARIANT; o.level = "I5"; o.dv.diverged = true; o.dv.index = i; o.dv.op = cur_op;
                o.props = {"C15"};
                if (r.rep < 0) o.props.push_back("C04");
                o.detail = "behaviour ran on replica " + std::to_string(r.rep) + " while the op targets replica " + std::to_string(op->on);
                return false;
            }
            if ((r.kind == K_N || r.kind == K_X) && r.val >= 1000) {
                o.verdict = V_INVARIANT; o.level = "I5"; o.dv.diverged = true; o.dv.index = i; o.dv.op = cur_op;
                o.props = {"C15"};
                o.detail = "state object of another replica invoked";
                return false;
            }
        }
        if ((r.kind == K_N || r.kind == K_X) && r.rep >= 0 && !any_throw) {
            ensure(r.rep);
            int& c = ledger[r.rep][r.site];
            if (r.kind == K_N) {
                if (c != 0 && ledger_valid[r.rep]) {
                    o.verdict = V_INVARIANT; o.level = "I2"; o.dv.diverged = true; o.dv.index = i; o.dv.op = cur_op;
                    o.props = {"C03", "C02"};
                    o.detail = std::string(post_in_op ? "after a process_event posted from a behaviour in the same op: " : "") +
                               "state entered twice without exit: " + rec_to_string(d, r);
                    return false;
                }
                c = 1;
            } else {
                if (c != 1 && ledger_valid[r.rep]) {
                    o.verdict = V_INVARIANT; o.level = "I2"; o.dv.diverged = true; o.dv.index = i; o.dv.op = cur_op;
                    o.props = {"C03", "C02"};
                    o.detail = std::string(post_in_op ? "after a process_event posted from a behaviour in the same op: " : "") +
                               "state exited without having been entered: " + rec_to_string(d, r);
                    return false;
                }
                c = 0;
            }
        }
        if (r.kind == K_BUSY && r.val != 0) {
            o.verdict = V_INVARIANT; o.level = "I6"; o.dv.diverged = true; o.dv.index = i; o.dv.op = cur_op;
            o.props = {"C12", "C04"};
            o.detail = "machine " + std::to_string(r.site) + " still marked as processing at quiescence (wedged)";
            return false;
        }
        if (r.kind == K_LIVE && r.site == 1 && r.val != 0) {
            o.verdict = V_INVARIANT; o.level = "I4"; o.dv.diverged = true; o.dv.index = i; o.dv.op = cur_op;
            o.props = {"C20"};
            o.detail = "instance registry: " + registry().first_error;
            return false;
        }
        if (r.kind == K_ESC) {
            o.verdict = V_INVARIANT; o.level = "I7"; o.dv.diverged = true; o.dv.index = i; o.dv.op = cur_op;
            o.props = {"C12"};
            if (r.val == 1) { o.props = {"C03", "C02", "C01"}; o.detail = "library assertion fired: " + real.abort_msg; }
            else o.detail = "exception escaped the public API";
            return false;
        }
        // replica bookkeeping for the ledger: copies inherit the ledger of their source
        if (r.kind == K_SNAP || r.kind == K_Q) {
            if (op && (op->kind == OP_COPY || op->kind == OP_MOVE || (op->kind == OP_SAVELOAD && op->val)) && r.rep >= 0) {
                ensure(op->on);
                if ((int)ledger.size() <= r.rep) { ensure(r.rep); ledger[r.rep] = ledger[op->on]; ledger_valid[r.rep] = ledger_valid[op->on]; }
            }
            if (op && (op->kind == OP_ASSIGN || op->kind == OP_MOVE_ASSIGN) && op->other >= 0) {
                ensure(op->on); ensure(op->other);
                ledger[op->on] = ledger[op->other]; ledger_valid[op->on] = ledger_valid[op->other];
            }
        }
    }
    return true;
}

// ---------------------------------------------------------------------------------------------
static void collect_stats(const Desc& d, const Plan& plan, const World& real, RunStats& st) {
    st.runs++;
    st.ops += (long)plan.ops.size();
    st.behaviour_calls += real.env.behaviour_calls;
    for (auto& op : plan.ops) {
        st.posts_configured += (long)op.posts.size();
        st.throws_configured += (long)op.throws.size();
        switch (op.kind) {
            case OP_COPY: st.copies++; break;
            case OP_ASSIGN: st.assigns++; break;
            case OP_MOVE: case OP_MOVE_ASSIGN: st.moves++; break;
            case OP_SAVELOAD: st.saveloads++; break;
            case OP_STOP: st.stopstarts++; break;
            case OP_CLEARQ: st.clears++; break;
            case OP_DESTROY: st.destroys++; break;
            default: break;
        }
    }
    st.posts_fired += real.env.fired_posts;
    st.throws_fired += real.env.fired_throws;
    uint64_t cfg = 0, th = 0;
    int32_t last_occ = OCC_UNKNOWN - 1;
    int guards_in_dispatch = 0;
    uint64_t triple = 0;
    std::set<int> machs;
    for (auto& r : real.env.trace) {
        switch (r.kind) {
            case K_G: st.guards++; break;
            case K_A: st.actions++; break;
            case K_N: st.entries++; break;
            case K_X: st.exits++; break;
            case K_NT: st.no_transitions++; break;
            case K_EC: st.exceptions_caught++; break;
            default: break;
        }
        if (r.kind <= K_NT) {
            if (r.occ != last_occ) {
                if (guards_in_dispatch >= 2) st.multi_candidate_dispatches++;
                if (machs.size() >= 2) st.nested_dispatches++;
                if (last_occ != OCC_UNKNOWN - 1) st.triple_hashes.insert(triple);
                st.dispatches++;
                if (r.occ == OCC_NONE) st.completion_seen++;
                last_occ = r.occ; guards_in_dispatch = 0; machs.clear();
                triple = h64(cfg, (uint64_t)r.evtype);
            }
            if (r.kind == K_G) { guards_in_dispatch++; triple = h64(triple, ((uint64_t)r.site << 1) | (uint64_t)r.val); }
            machs.insert(r.mach);
        }
        if (r.kind == K_OP) { cfg = 0; }
        if (r.kind == K_SNAP) { cfg = h64(cfg, ((uint64_t)r.site << 32) | (uint32_t)r.val); st.config_hashes.insert(h64(cfg, r.rep)); }
        if (r.kind == K_Q && r.val) { st.queue_hashes.insert(h64(cfg, ((uint64_t)r.site << 32) | (uint32_t)r.val)); if (r.val & 0xffff) st.deferred_seen++; }
    }
    if (guards_in_dispatch >= 2) st.multi_candidate_dispatches++;
    th = trace_hash(real.env.trace);
    uint32_t mask = 0;
    {
        int32_t lo = OCC_UNKNOWN - 1; int g = 0; std::set<int> ms; std::map<int, int> own_entries;
        for (auto& r : real.env.trace) {
            if (r.kind <= K_NT) {
                if (r.occ != lo) { lo = r.occ; g = 0; ms.clear(); if (r.occ == OCC_NONE) mask |= 1u << 3; }
                if (r.kind == K_G && ++g >= 2) mask |= 1u << 0;
                ms.insert(r.mach);
                if (ms.size() >= 2) mask |= 1u << 1;
                if (r.kind == K_NT) mask |= 1u << 9;
                if (r.kind == K_N && r.site < (int)d.states.size() && d.states[r.site].kind == SK_SUB && ++own_entries[r.site] >= 2) mask |= 1u << 13;
            }
            if (r.kind == K_X && r.occ >= 0) mask |= 1u << 15;
            if (r.kind == K_RET && (r.val & 1) && &r != &real.env.trace[0] && (&r)[-1].kind == K_OP) mask |= 1u << 16;
            if (r.kind == K_Q && (r.val & 0xffff)) mask |= 1u << 2;
            if (r.kind == K_Q && (r.val >> 16)) mask |= 1u << 12;
            if (r.kind == K_POST) mask |= 1u << 4;
            if (r.kind == K_THROW) mask |= 1u << 5;
            if (r.kind == K_EC) mask |= 1u << 10;
            if (r.kind == K_FLAG && r.val) mask |= 1u << 11;
        }
        for (auto& op : plan.ops) {
            if (op.kind == OP_COPY || op.kind == OP_ASSIGN || op.kind == OP_MOVE || op.kind == OP_MOVE_ASSIGN) mask |= 1u << 6;
            if (op.kind == OP_SAVELOAD) mask |= 1u << 7;
            if (op.kind == OP_STOP) mask |= 1u << 8;
            if (op.kind == OP_ENQUEUE || op.kind == OP_DRAIN || op.kind == OP_DRAIN1) mask |= 1u << 12;
            if (op.kind == OP_CLEARQ || op.kind == OP_DESTROY) mask |= 1u << 14;
        }
    }
    st.trace_hashes[th] |= mask;
}

// the description with the state ids as the back-end of this variant numbers them (one spec per process)
const Desc& view_of(const Desc& d, int dialect) {
    static Desc back_view = dialect_view(d, 0);
    return dialect == 0 ? back_view : d;
}

// finding KF-3 as an outcome: where the two numberings first show in the trace
static void ids_outcome(const Desc& d, const std::vector<Rec>& t, Outcome& o, bool diff) {
    o.verdict = V_DIVERGED;
    o.level = "IDS";
    o.props = diff ? std::vector<std::string>{"C13", "C03"} : std::vector<std::string>{"C03"};
    o.dv.diverged = true;
    o.dv.index = 0;
    std::string which;
    for (auto& m : d.machines)
        for (size_t i = 0; i < m.states.size(); ++i)
            if (m.states[i] != m.states_back[i] && which.empty())
                which = "machine " + m.name + ": state " + d.states[m.states_back[i]].name + " has id " + std::to_string(i) + " in back / back11 and " +
                        std::to_string(d.states[m.states_back[i]].lib_id) + " in backmp11";
    o.detail = "state ids of implicitly created states: back / back11 number them before the Next-column-only states, backmp11 after (" + which + ")";
    for (size_t i = 0; i < t.size(); ++i) if (t[i].kind == K_SNAP) { o.dv.index = i; break; }
}

Outcome evaluate(const Desc& d0, const Variant& v, const Profile& pf, const Plan& plan, RunStats* st) {
    const Desc& d = view_of(d0, v.dialect);
    static Facts facts = facts_of(d);
    Outcome o;
    o.plan = plan;
    Dialect dl = dialect_of(v);
    if (pf.strict_model) dl.q_mp_action_defer_requeue = false;
    World real(d, [&](int) { return v.make(); }, false);
    World model(d, [&](int r) { return (IMachine*)new Model(d, dl, r); }, true);
    real.observe_each = model.observe_each = pf.observe_each;
    real.run(plan);
    model.run(plan);
    o.hash_real = trace_hash(real.env.trace);
    o.hash_model = trace_hash(model.env.trace);
    if (st) collect_stats(d, plan, real, *st);
    o.dv = compare_traces(real, model);
    Outcome inv = o;
    bool inv_ok = check_invariants(d, plan, real, inv);
    if (o.dv.diverged) {
        o.verdict = V_DIVERGED;
        attribute(d, facts, plan, real, model, o, v.dialect == 0);
        // an invariant broken strictly before the lockstep divergence takes precedence
        if (!inv_ok && inv.dv.index < o.dv.index) o = inv;
    } else if (!inv_ok) {
        o = inv;
    } else if (v.dialect == 0 && ids_differ(d0)) {
        // finding KF-3: everything else agreed with the model that numbers the states as back does (internals.adoc); the
        // numbering itself is not the one C03 spells out (sources, targets, then implicitly created states)
        ids_outcome(d0, real.env.trace, o, false);
    }
    if (o.verdict != V_OK) {
        size_t i = o.dv.index;
        size_t lo = i > 12 ? i - 12 : 0;
        for (size_t k = lo; k < i + 4; ++k) {
            if (k < real.env.trace.size()) o.observed.push_back(real.env.trace[k]);
            if (k < model.env.trace.size()) o.expected.push_back(model.env.trace[k]);
        }
        if (st) { if (o.level == "IDS") st->ids_known++; else if (o.verdict == V_DIVERGED) st->diverged++; else st->invariant_violations++; }
    } else if (st && st->samples.size() < 3 && plan.ops.size() <= 8 && real.env.trace.size() > 12) {
        JV s = JV::obj();
        s.set("plan", plan_to_json(plan));
        JV tr = JV::arr();
        for (auto& r : real.env.trace) if (r.kind <= K_RET) tr.push(rec_to_string(d, r));
        s.set("trace", tr);
        st->samples.push_back(s.dump());
    }
    return o;
}

// ---------------------------------------------------------------------------------------------
static bool same_class(const Outcome& a, const Outcome& b) {
    if (b.verdict == V_OK) return false;
    if (a.level != b.level) return false;
    // same kind of finding: the part of the detail before the first ':' names it
    if (a.detail.substr(0, a.detail.find(':')) != b.detail.substr(0, b.detail.find(':'))) return false;
    return a.props == b.props;
}

Outcome shrink(const Desc& d, const Variant& v, const Profile& pf, const Plan& plan, const Outcome& first) {
    Outcome best = first;
    best.plan = plan;
    int budget = 400;
    auto try_plan = [&](const Plan& cand) -> bool {
        if (budget-- <= 0) return false;
        Outcome o = evaluate(d, v, pf, cand, nullptr);
        if (same_class(first, o)) { best = o; best.plan = cand; return true; }
        return false;
    };
    // 1. truncate after the op containing the divergence
    if (best.dv.op >= 0 && best.dv.op + 1 < (int)best.plan.ops.size()) {
        Plan c = best.plan;
        c.ops.resize(best.dv.op + 1);
        try_plan(c);
    }
    // 2. ddmin-style removal of chunks of ops (never op 0 = start)
    for (size_t chunk = std::max<size_t>(1, best.plan.ops.size() / 2); chunk >= 1; chunk /= 2) {
        bool progress = true;
        while (progress && budget > 0) {
            progress = false;
            for (size_t at = 1; at + chunk <= best.plan.ops.size(); ) {
                Plan c = best.plan;
                c.ops.erase(c.ops.begin() + at, c.ops.begin() + at + chunk);
                if (try_plan(c)) progress = true;
                else at += chunk;
            }
        }
        if (chunk == 1) break;
    }
    // 3. drop posts and throws
    for (size_t k = 0; k < best.plan.ops.size(); ++k) {
        for (size_t j = 0; j < best.plan.ops[k].posts.size(); ) {
            Plan c = best.plan;
            c.ops[k].posts.erase(c.ops[k].posts.begin() + j);
            if (!try_plan(c)) ++j;
        }
        for (size_t j = 0; j < best.plan.ops[k].throws.size(); ) {
            Plan c = best.plan;
            c.ops[k].throws.erase(c.ops[k].throws.begin() + j);
            if (!try_plan(c)) ++j;
        }
    }
    // 4. guard vectors towards all-true
    for (size_t k = 0; k < best.plan.ops.size(); ++k) {
        Plan c = best.plan;
        bool change = false;
        for (auto& b : c.ops[k].gv) if (!b) { b = 1; change = true; }
        if (change && try_plan(c)) continue;
        for (size_t g = 0; g < best.plan.ops[k].gv.size() && budget > 0; ++g) {
            if (best.plan.ops[k].gv[g]) continue;
            Plan c2 = best.plan;
            c2.ops[k].gv[g] = 1;
            try_plan(c2);
        }
    }
    // 5. lifecycle / queue ops towards plain process_event
    for (size_t k = 1; k < best.plan.ops.size(); ++k) {
        if (best.plan.ops[k].kind == OP_ENQUEUE) {
            Plan c = best.plan;
            c.ops[k].kind = OP_PROCESS;
            try_plan(c);
        }
    }
    return best;
}

// ---------------------------------------------------------------------------------------------
// differential oracle
static std::vector<Rec> normalise(const Desc& d, const std::vector<Rec>& t, const std::string& mode, int dialect) {
    std::vector<Rec> out;
    out.reserve(t.size());
    const bool renumber = dialect == 0 && ids_differ(d);
    // back / back11 ids -> the numbering of backmp11, so that the comparison goes on past finding KF-3
    auto canon = [&](int mach, int id) -> int {
        if (mach < 0 || mach >= (int)d.machines.size()) return id;
        const auto& sb = d.machines[mach].states_back;
        if (id < 0 || id >= (int)sb.size()) return id;
        return d.states[sb[id]].lib_id;
    };
    for (const Rec& r0 : t) {
        Rec r = r0;
        r.aux = 0;
        if (renumber) {
            if (r.kind <= K_EC && r.obs != 0xffffffffu && r.mach >= 0) {
                uint32_t o = 0;
                for (int b = 0; b < 4; ++b) {
                    uint32_t x = (r.obs >> (8 * b)) & 0xff;
                    if (x != 0xff && b < (int)d.machines[r.mach].regions.size()) x = (uint32_t)canon(r.mach, (int)x) & 0xff;
                    o |= x << (8 * b);
                }
                r.obs = o;
            }
            if (r.kind == K_NT) r.val = canon(r.site, r.val);
            if (r.kind == K_SNAP || r.kind == K_HIST) r.val = (r.val & ~0xffff) | (canon(r.site, r.val & 0xffff) & 0xffff);
        }
        if (mode == "backend" || mode == "frontend") {
            // back re-tries completion rows after every handled event, backmp11 only on entry: a false
            // re-evaluation is not an observable difference (C13 quantifier: guards fixed per entry)
            if (r.kind == K_G && r.site < (int)d.leaf_is_completion.size() && d.leaf_is_completion[r.site] && r.val == 0) continue;
            if (r.kind == K_RET) r.val = (r.val & 1) | (r.val == 0 ? 2 : 0);     // handled / zero status
            if (r.kind == K_Q) r.val = (r.val >> 16) + (r.val & 0xffff);           // total pending, however it is stored
            if (r.kind == K_FLAG) r.val &= 1;                                       // OR form only
            if (r.kind == K_VIS || r.kind == K_ACT) continue;                       // back-end specific introspection
        }
        if (mode == "policy") {
            // the policies differ only in what behaviours observe inside a transition
            if (r.kind <= K_EC) r.obs = 0;
        }
        out.push_back(r);
    }
    return out;
}

// finding KF-4: the divergence at a[i] / b[i] is the forwarded event of an exit point that the history policy restored in
// the same op (entered together with its sub-machine, not as the target of a row) being processed on one side only
static std::string restored_exit_point(const Desc& d, const std::vector<Rec>& a, const std::vector<Rec>& b, size_t i) {
    for (size_t k = i; k-- > 0 && k < a.size(); ) {
        if (a[k].kind == K_OP) break;
        if (a[k].kind != K_N || a[k].site < 0 || a[k].site >= (int)d.states.size()) continue;
        const DState& x = d.states[a[k].site];
        if (x.kind != SK_EXIT_PT) continue;
        bool with_machine = false;
        for (size_t q = k; q-- > 0; ) {
            if (a[q].kind == K_POST || a[q].kind == K_THROW) continue;
            if (a[q].kind != K_N) break;
            if (a[q].site == d.machines[x.machine].parent_state) { with_machine = true; break; }
        }
        if (!with_machine) continue;
        // the forwarded event carries the occurrence id of the event that entered the sub-machine
        bool ea = i < a.size() && a[i].kind <= K_EC && a[i].evtype == x.exit_event && a[i].occ == a[k].occ;
        bool eb = i < b.size() && b[i].kind <= K_EC && b[i].evtype == x.exit_event && b[i].occ == a[k].occ;
        if (ea != eb) return x.name;
        // ... or is refused by an assertion of back (the entering event is not convertible to the exit point's event)
        if ((i < a.size() && a[i].kind == K_ESC && a[i].val == 1) || (i < b.size() && b[i].kind == K_ESC && b[i].val == 1)) return x.name;
        // ... or is still pending on one side when a bounded drain ends the op
        if (i < a.size() && i < b.size() && a[i].kind == K_Q && b[i].kind == K_Q && a[i].site == b[i].site && a[i].val != b[i].val) return x.name;
    }
    return "";
}

Outcome evaluate_diff(const Desc& d, const std::vector<const Variant*>& vs, const Profile& pf, const Plan& plan,
                      const std::string& mode, RunStats* st) {
    Outcome o;
    o.plan = plan;
    std::vector<std::vector<Rec>> traces;
    std::vector<std::vector<size_t>> opidx;
    for (size_t k = 0; k < vs.size(); ++k) {
        World w(view_of(d, vs[k]->dialect), [&](int) { return vs[k]->make(); }, false);
        w.observe_each = pf.observe_each;
        w.run(plan);
        if (k == 0) {
            o.hash_real = trace_hash(w.env.trace);
            if (st) collect_stats(d, plan, w, *st);
            Outcome inv = o;
            if (!check_invariants(d, plan, w, inv)) { /* reported by the lockstep checks */ }
        }
        if (w.aborted) { Rec r; r.kind = K_ESC; r.val = 1; w.env.trace.push_back(r); }
        traces.push_back(normalise(d, w.env.trace, mode, vs[k]->dialect));
    }
    for (size_t k = 1; k < vs.size(); ++k) {
        const auto& a = traces[0];
        const auto& b = traces[k];
        size_t n = std::min(a.size(), b.size()), i = 0;
        for (; i < n; ++i) if (a[i] != b[i]) break;
        if (i == n && a.size() == b.size()) continue;
        std::string kf4_context = restored_exit_point(d, a, b, i);
        // finding KF-5: the same completion steps on both sides, in another order (several regions armed by one event)
        bool kf5 = false;
        if (i < a.size() && i < b.size() && a[i].kind <= K_EC && b[i].kind <= K_EC && a[i].occ == OCC_NONE && b[i].occ == OCC_NONE) {
            auto run_of = [&](const std::vector<Rec>& t) {
                std::vector<std::tuple<int, int, int, int>> r;
                for (size_t q = i; q < t.size(); ++q) {
                    if (t[q].kind == K_POST || t[q].kind == K_THROW) continue;      // submissions made by those steps
                    if (!(t[q].kind <= K_EC && t[q].occ == OCC_NONE)) break;
                    r.emplace_back(t[q].kind, t[q].site, t[q].mach, t[q].val);
                }
                std::sort(r.begin(), r.end());
                return r;
            };
            kf5 = run_of(a) == run_of(b);
        }
        o.verdict = V_DIVERGED;
        o.dv.diverged = true;
        o.dv.index = i;
        o.dv.op = -1;
        for (size_t q = 0; q <= i && q < a.size(); ++q) if (a[q].kind == K_OP) o.dv.op = a[q].site;
        o.level = "DIFF";
        o.props = {mode == "backend" ? "C13" : mode == "policy" ? "C19" : "C14"};
        std::string ka = i < a.size() ? kind_name(a[i].kind) : "end", kb = i < b.size() ? kind_name(b[i].kind) : "end";
        o.detail = vs[0]->name + " vs " + vs[k]->name + ": normalised traces differ at a " + ka + " / " + kb + " record";
        if (kf5) o.detail += " (the same completion steps of several regions in another order)";
        if (!kf4_context.empty()) o.detail += " (forwarded event of exit point " + kf4_context + " that the history policy restored)";
        size_t lo = i > 12 ? i - 12 : 0;
        for (size_t q = lo; q < i + 4; ++q) {
            if (q < a.size()) o.expected.push_back(a[q]);
            if (q < b.size()) o.observed.push_back(b[q]);
        }
        if (st) st->diverged++;
        break;
    }
    if (o.verdict == V_OK && mode == "backend" && ids_differ(d)) {
        bool d0 = false, d1 = false;
        for (auto* v : vs) (v->dialect == 0 ? d0 : d1) = true;
        if (d0 && d1) {
            ids_outcome(d, traces[0], o, true);
            if (st) st->ids_known++;
        }
    }
    return o;
}

Outcome shrink_diff(const Desc& d, const std::vector<const Variant*>& vs, const Profile& pf, const Plan& plan,
                    const std::string& mode, const Outcome& first) {
    Outcome best = first;
    best.plan = plan;
    int budget = 300;
    auto try_plan = [&](const Plan& cand) -> bool {
        if (budget-- <= 0) return false;
        Outcome o = evaluate_diff(d, vs, pf, cand, mode, nullptr);
        if (o.verdict != V_OK && o.detail == first.detail) { best = o; best.plan = cand; return true; }
        return false;
    };
    if (best.dv.op >= 0 && best.dv.op + 1 < (int)best.plan.ops.size()) { Plan c = best.plan; c.ops.resize(best.dv.op + 1); try_plan(c); }
    for (size_t chunk = std::max<size_t>(1, best.plan.ops.size() / 2); chunk >= 1; chunk /= 2) {
        bool progress = true;
        while (progress && budget > 0) {
            progress = false;
            for (size_t at = 1; at + chunk <= best.plan.ops.size(); ) {
                Plan c = best.plan;
                c.ops.erase(c.ops.begin() + at, c.ops.begin() + at + chunk);
                if (try_plan(c)) progress = true; else at += chunk;
            }
        }
        if (chunk == 1) break;
    }
    for (size_t k = 0; k < best.plan.ops.size(); ++k) {
        for (size_t j = 0; j < best.plan.ops[k].posts.size(); ) { Plan c = best.plan; c.ops[k].posts.erase(c.ops[k].posts.begin() + j); if (!try_plan(c)) ++j; }
        for (size_t j = 0; j < best.plan.ops[k].throws.size(); ) { Plan c = best.plan; c.ops[k].throws.erase(c.ops[k].throws.begin() + j); if (!try_plan(c)) ++j; }
    }
    return best;
}

JV outcome_to_json(const Desc& d, const Variant& v, const Outcome& o, long index) {
    JV j = JV::obj();
    j.set("spec", d.name);
    j.set("variant", v.name);
    j.set("profile", o.plan.profile);
    j.set("index", (long long)index);
    j.set("verdict", o.verdict);
    j.set("level", o.level);
    JV ps = JV::arr();
    for (auto& p : o.props) ps.push(p);
    j.set("property", ps);
    j.set("detail", o.detail);
    j.set("first_divergence", (long long)o.dv.index);
    j.set("op", o.dv.op);
    char hb[40];
    snprintf(hb, sizeof hb, "%016llx", (unsigned long long)o.hash_real);
    j.set("trace_hash", hb);
    j.set("plan", plan_to_json(o.plan));
    JV ex = JV::arr(), ob = JV::arr();
    for (auto& r : o.expected) ex.push(rec_to_string(d, r));
    for (auto& r : o.observed) ob.push(rec_to_string(d, r));
    j.set("expected", ex);
    j.set("observed", ob);
    return j;
}

JV stats_to_json(const RunStats& st) {
    JV j = JV::obj();
    j.set("runs", st.runs); j.set("ops", st.ops); j.set("behaviour_calls", st.behaviour_calls); j.set("dispatches", st.dispatches);
    j.set("posts_configured", st.posts_configured); j.set("posts_fired", st.posts_fired);
    j.set("throws_configured", st.throws_configured); j.set("throws_fired", st.throws_fired);
    j.set("copies", st.copies); j.set("assigns", st.assigns); j.set("moves", st.moves); j.set("saveloads", st.saveloads);
    j.set("stopstarts", st.stopstarts); j.set("clears", st.clears); j.set("destroys", st.destroys);
    j.set("diverged", st.diverged); j.set("invariant_violations", st.invariant_violations); j.set("ids_known", st.ids_known);
    j.set("multi_candidate_dispatches", st.multi_candidate_dispatches); j.set("nested_dispatches", st.nested_dispatches);
    j.set("deferred_pending_observed", st.deferred_seen); j.set("completion_dispatches", st.completion_seen);
    j.set("exceptions_caught", st.exceptions_caught); j.set("no_transitions", st.no_transitions);
    j.set("entries", st.entries); j.set("exits", st.exits); j.set("guards", st.guards); j.set("actions", st.actions);
    j.set("distinct_traces", (long)st.trace_hashes.size()); j.set("distinct_configs", (long)st.config_hashes.size());
    j.set("distinct_triples", (long)st.triple_hashes.size()); j.set("distinct_queue_states", (long)st.queue_hashes.size());
    JV hs = JV::arr();
    for (auto& kv : st.trace_hashes) { char b[40]; snprintf(b, sizeof b, "%llx:%x", (unsigned long long)kv.first, kv.second); hs.push(b); }
    j.set("trace_hashes", hs);
    JV ss = JV::arr();
    for (auto& s : st.samples) ss.push(jparse(s));
    j.set("samples", ss);
    return j;
}

} // namespace sim
