// sim/imachine.hpp -- the uniform, type-erased interface implemented by every generated
// (spec, variant) adapter around a real msm machine and by the reference model.
#pragma once
#include "core.hpp"
#include <memory>
#include <string>
#include <vector>

namespace sim {

struct Snap {
    // per machine index (static tree order): active id per region, or empty when not applicable
    std::vector<std::vector<int>> active;
    std::vector<std::vector<int>> hist;  // history memory per machine (empty if policy keeps none / not probed)
    std::vector<int> qmsg, qdef;         // pending message-queue / deferred sizes per machine (-1 = n/a)
    std::vector<int> busy;               // m_event_processing per machine (-1 = n/a)
    std::vector<int> running;            // backmp11 m_running (-1 = n/a)
};

enum SaveFmt { FMT_TEXT = 0, FMT_BINARY = 1 };

struct IMachine {
    virtual ~IMachine() {}
    virtual void start() = 0;
    virtual void stop() = 0;
    virtual int process(int ev, int32_t occ) = 0;  // returns HandledEnum bits
    virtual void enqueue(int ev, int32_t occ) = 0;
    virtual void defer(int ev, int32_t occ) = 0;   // public defer_event on the root (where offered)
    virtual void drain() = 0;
    virtual void drain_one() = 0;
    virtual int sub_process(int mach, int ev, int32_t occ) { (void)mach; (void)ev; (void)occ; return -1; }
    virtual IMachine* clone() const = 0;           // copy-construct from const&
    virtual void assign_from(const IMachine& o) = 0;
    virtual IMachine* move_out() { return nullptr; } // move-construct a new machine from *this (backmp11)
    virtual bool move_assign_from(IMachine& o) { (void)o; return false; }
    virtual bool save(int fmt, std::string& out) { (void)fmt; (void)out; return false; }
    virtual bool load(int fmt, const std::string& in) { (void)fmt; (void)in; return false; }
    virtual void snapshot(Snap& s) const = 0;
    virtual void extent(const char*& lo, const char*& hi) const = 0;
    // flag query on machine `mach`: returns -1 if not available, else bit0 = OR result, bit1 = AND result
    virtual int flag(int mach, int flag) const { (void)mach; (void)flag; return -1; }
    // is_state_active for global state index (backmp11): -1 n/a
    virtual int state_active(int gstate) const { (void)gstate; return -1; }
    // visit active states: appends global state indices, mode 0 = back visit_current_states /
    // backmp11 active_recursive, 1 = active_non_recursive, 2 = all_recursive, 3 = all_non_recursive
    virtual bool visit(int mode, std::vector<int>& out) { (void)mode; (void)out; return false; }
    // get_state_by_id(id) on machine `mach` -> global state index or -1 (back); -2 n/a
    virtual int state_by_id(int mach, int id) const { (void)mach; (void)id; return -2; }
    virtual void clear_queue(int which) { (void)which; }
    virtual void post(const Post& p) = 0;          // submission to the root from inside a behaviour
    virtual long live_tracked() const { return -1; }   // model: pending occurrences of tracked event classes
    virtual int state_data(int gstate) const { (void)gstate; return 0; }
    virtual void set_state_data(int gstate, int v) { (void)gstate; (void)v; }
};

struct Desc;
typedef IMachine* (*Factory)();
struct Variant {
    std::string name;      // "B", "BC", "B11", "M", "MA", "MC", ...
    Factory make;
    int dialect;           // 0 = back/back11, 1 = backmp11
    int switch_policy;     // 0 after_entry, 1 after_action, 2 after_exit, 3 before_transition, -1 per spec
    std::string note;
};
std::vector<Variant>& variants();
struct VariantReg { VariantReg(const char* n, Factory f, int dialect, int pol, const char* note); };

} // namespace sim
