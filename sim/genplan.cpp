#include "genplan.hpp"
#include <map>

namespace sim {

static std::map<std::string, Profile> build_profiles() {
    std::map<std::string, Profile> m;
    auto add = [&](Profile p) { m[p.name] = p; };
    {   // quiescent dispatches only: one external event at a time, nothing re-entrant, no faults
        Profile p; p.name = "plain"; p.min_ops = 4; p.max_ops = 16; add(p);
    }
    {   // plain + stop/start cycles + full introspection after every op
        Profile p; p.name = "lifecycle"; p.w_stopstart = 2; p.observe_each = true; p.min_ops = 4; p.max_ops = 16; add(p);
    }
    {   // re-entrant submissions from every callback position, enqueue API, drains
        Profile p; p.name = "queue"; p.w_enqueue = 4; p.w_drain = 2; p.w_drain1 = 2; p.post_rate = 0.6; p.post_root = true;
        p.post_in_start = true; p.min_ops = 4; p.max_ops = 14; add(p);
    }
    {   // the common subset compared across back-ends (C13): re-entrant submissions, enqueue API, drains
        Profile p; p.name = "common"; p.w_enqueue = 4; p.w_drain = 2; p.w_drain1 = 2; p.post_rate = 0.5; p.post_root = true;
        p.post_in_start = true; p.post_enqueue_sub = false; p.w_stopstart = 1; p.stop_when_drained = true; p.fault_on_completion_guard = false; p.min_ops = 4; p.max_ops = 14; add(p);
    }
    {   // the common subset with injected exceptions
        Profile p; p.name = "common_throws"; p.w_enqueue = 2; p.w_drain = 1; p.post_rate = 0.25; p.post_root = true;
        p.post_enqueue_sub = false; p.post_sub = false; p.throw_rate = 0.35; p.max_throws = 2; p.fault_on_completion_guard = false; p.min_ops = 4; p.max_ops = 14; add(p);
    }
    {   // posts but no start-time posts, no enqueue from outside
        Profile p; p.name = "posts"; p.post_rate = 0.5; p.post_root = true; add(p);
    }
    {   // like queue, but process_event may also be aimed at machines that are not marked as processing
        Profile p; p.name = "reentrant"; p.post_rate = 0.8; p.post_root = true; p.allow_reentrant = true; p.post_enqueue = false;
        p.w_stopstart = 1; p.min_ops = 3; p.max_ops = 10; add(p);
    }
    {   // deferral: public defer API + posts
        Profile p; p.name = "defer"; p.w_enqueue = 2; p.w_drain = 1; p.w_defer = 2; p.post_rate = 0.3; p.post_defer = true;
        p.cond_defer = true; p.min_ops = 5; p.max_ops = 18; add(p);
    }
    {   // long-lived machines: hundreds of ops in one run (counters that wrap, queues that grow and drain many times)
        Profile p; p.name = "long"; p.w_enqueue = 2; p.w_drain = 1; p.w_drain1 = 1; p.w_defer = 2; p.post_rate = 0.15; p.post_defer = true;
        p.cond_defer = true; p.min_ops = 180; p.max_ops = 420; add(p);
    }
    {   // deferral checked against the documented semantics only (no quirks): demonstrates known finding KF-2
        Profile p; p.name = "defer_strict"; p.strict_model = true; p.min_ops = 5; p.max_ops = 14; add(p);
    }
    {   // fault injection: exceptions at every behaviour position (+ some posts)
        Profile p; p.name = "throws"; p.throw_rate = 0.35; p.max_throws = 2; p.post_rate = 0.25; p.w_enqueue = 2; p.w_drain = 1;
        p.min_ops = 4; p.max_ops = 14; add(p);
    }
    {   // forks: copy / assign / move with pending events, different continuations on the replicas
        Profile p; p.name = "fork"; p.w_copy = 3; p.w_assign = 2; p.w_move = 1; p.w_enqueue = 3; p.w_drain = 2; p.w_destroy = 1;
        p.post_rate = 0.2; p.w_defer = 1; p.min_ops = 6; p.max_ops = 18; add(p);
    }
    {   // crash-restart through Boost.Serialization
        Profile p; p.name = "crash"; p.w_saveload = 4; p.w_setdata = 1; p.w_stopstart = 0; p.observe_each = true; p.min_ops = 6; p.max_ops = 18; add(p);
    }
    {   // storage: submit / defer / clear / copy / destroy with events pending
        Profile p; p.name = "storage"; p.w_enqueue = 6; p.w_drain = 2; p.w_drain1 = 2; p.w_defer = 3; p.w_copy = 2; p.w_assign = 1;
        p.w_move = 1; p.w_clearq = 1; p.w_destroy = 1; p.w_stopstart = 1; p.post_rate = 0.3; p.post_defer = true; p.post_cleardef = true;
        p.min_ops = 6; p.max_ops = 20; add(p);
    }
    {   // introspection heavy
        Profile p; p.name = "observe"; p.observe_each = true; p.w_stopstart = 1; p.post_rate = 0.2; add(p);
    }
    return m;
}
const Profile& profile_by_name(const std::string& n) {
    static std::map<std::string, Profile> m = build_profiles();
    auto it = m.find(n);
    if (it == m.end()) throw std::runtime_error("unknown profile " + n);
    return it->second;
}
std::vector<std::string> profile_names() {
    static std::map<std::string, Profile> m = build_profiles();
    std::vector<std::string> v;
    for (auto& kv : m) v.push_back(kv.first);
    return v;
}

Dialect dialect_of(const Variant& v) {
    Dialect d;
    d.backend = v.dialect;
    d.ct = v.note.find(" ct ") != std::string::npos;
    d.switch_override = v.switch_policy;
    return d;
}

Plan generate_plan(const Desc& d, const Variant& v, const Profile& pf, uint64_t seed) {
    Plan plan;
    plan.seed = seed;
    plan.variant = v.name;
    plan.profile = pf.name;
    Rng rng(mix(seed, 0x51a7));
    Dialect dl = dialect_of(v);
    const bool mp = dl.backend == 1;
    World gw(d, [&](int rep) { return (IMachine*)new Model(d, dl, rep); }, true);

    std::vector<int> ext, postable;
    for (size_t i = 0; i < d.events.size(); ++i) {
        if (d.events[i].external) ext.push_back((int)i);
        if (d.events[i].postable) postable.push_back((int)i);
    }
    // swarm: per-run knobs
    double p_true = 0.2 + 0.15 * rng.below(5);
    double post_scale = rng.chance(0.3) ? 0.0 : (rng.chance(0.5) ? 1.0 : 0.5);
    double throw_scale = rng.chance(0.2) ? 0.0 : 1.0;
    int nops = rng.range(pf.min_ops, pf.max_ops);
    // restrict the event alphabet in some runs so that sequences revisit the same states
    std::vector<int> alphabet = ext;
    if (alphabet.size() > 2 && rng.chance(0.3)) {
        size_t keep = 2 + rng.below((uint32_t)alphabet.size() - 2);
        while (alphabet.size() > keep) alphabet.erase(alphabet.begin() + rng.below((uint32_t)alphabet.size()));
    }
    int32_t occ = 1;
    bool can_defer_api = mp || d.machines[0].has_deferred;

    auto fill_gv = [&](Op& op) {
        op.gv.resize(d.nleaves);
        for (int i = 0; i < d.nleaves; ++i) op.gv[i] = rng.chance(p_true);
        op.cond = (uint32_t)rng.next();   // conditional-deferral decisions of this op (backmp11 is_event_deferred)
    };
    auto attach_faults = [&](Op& op, int idx) {
        bool want_posts = pf.post_rate > 0 && rng.chance(pf.post_rate * post_scale) && !postable.empty();
        bool want_throw = pf.throw_rate > 0 && rng.chance(pf.throw_rate * throw_scale);
        if (op.kind == OP_START && !pf.post_in_start) want_posts = false;
        // what is submitted while stop() runs stays pending over the stop/start cycle: back-end specific, no property covers it
        if (op.kind == OP_STOP && !pf.allow_reentrant) want_posts = false;
        if (op.kind == OP_START || op.kind == OP_STOP) want_throw = false;   // C12: "while an event is processed"
        if (!want_posts && !want_throw) return;
        // dry run on a copy of the model world: which callbacks does this op reach?
        World tmp(gw);
        size_t from = tmp.env.trace.size();
        tmp.exec(op, idx);
        struct CbPos { uint8_t kind; int16_t site; int16_t nth; uint8_t aux; int8_t mach; };
        std::vector<CbPos> cbs;
        std::map<uint32_t, int> cnt;
        for (size_t i = from; i < tmp.env.trace.size(); ++i) {
            const Rec& r = tmp.env.trace[i];
            if (r.kind > K_EC) continue;
            uint32_t key = ((uint32_t)r.kind << 16) | (uint16_t)r.site;
            int n = cnt[key]++;
            if (r.rep != op.on) continue;
            // convention (DESIGN.md section 5): what the root machine's own entry behaviour submits to itself
            // during start() is wiped by backmp11's pool reset on (no-history) entry; not generated
            if (op.kind == OP_START && r.kind == K_N && r.site == (int)d.states.size()) continue;
            // back re-evaluates completion guards after every handled event, backmp11 only on entry: the nth
            // evaluation is not the same evaluation in both (C13 differential runs only)
            if (!pf.fault_on_completion_guard && r.kind == K_G && r.site < (int)d.leaf_is_completion.size() && d.leaf_is_completion[r.site]) continue;
            cbs.push_back(CbPos{r.kind, r.site, (int16_t)n, r.aux, r.mach});
        }
        if (cbs.empty()) return;
        if (want_posts) {
            int k = 1 + (int)rng.below((uint32_t)pf.max_posts);
            for (int j = 0; j < k; ++j) {
                const CbPos& c = cbs[rng.below((uint32_t)cbs.size())];
                Post p;
                p.cb = c.kind; p.site = c.site; p.nth = c.nth;
                p.ev = (int16_t)postable[rng.below((uint32_t)postable.size())];
                p.occ = occ++;
                p.to_root = pf.post_root && rng.chance(0.3);
                if (!pf.post_sub && c.mach != 0) p.to_root = 1;
                uint32_t a = rng.below(10);
                p.api = API_PROCESS;
                if (pf.post_enqueue && a >= 6 && a < 9) p.api = API_ENQUEUE;
                if (pf.post_defer && a >= 9) p.api = API_DEFER;
                if (pf.post_cleardef && v.dialect == 0 && rng.chance(0.2)) p.api = API_CLEARDEF;
                // process_event towards a machine that is not marked as processing would be dispatched
                // re-entrantly in the middle of the enclosing machine's step (known finding KF-1)
                bool target_busy = p.to_root ? (c.aux & 2) : (c.aux & 1);
                if (p.api == API_CLEARDEF) { op.posts.push_back(p); continue; }
                if (p.api == API_PROCESS && !target_busy && !pf.allow_reentrant) p.api = API_ENQUEUE;
                if (p.api == API_ENQUEUE && !pf.post_enqueue_sub && !p.to_root && c.mach != 0) {
                    if (target_busy) p.api = API_PROCESS; else p.to_root = 1;
                }
                op.posts.push_back(p);
            }
        }
        if (want_throw) {
            int k = 1 + (int)rng.below((uint32_t)pf.max_throws);
            for (int j = 0; j < k; ++j) {
                std::vector<CbPos> cand;
                for (auto& c : cbs) if (c.kind <= K_N) cand.push_back(c);
                if (cand.empty()) break;
                const CbPos& c = cand[rng.below((uint32_t)cand.size())];
                Throw t; t.cb = c.kind; t.site = c.site; t.nth = c.nth;
                op.throws.push_back(t);
            }
            // C04 / C12: exception_caught is a behaviour too -- it may submit events (seen only when the throws are in place)
            if (pf.post_rate > 0 && !op.throws.empty() && rng.chance(0.4)) {
                World t3(gw);
                size_t f3 = t3.env.trace.size();
                t3.exec(op, idx);
                std::vector<CbPos> ecs;
                std::map<uint32_t, int> cnt3;
                for (size_t i = f3; i < t3.env.trace.size(); ++i) {
                    const Rec& r = t3.env.trace[i];
                    if (r.kind > K_EC) continue;
                    uint32_t key = ((uint32_t)r.kind << 16) | (uint16_t)r.site;
                    int n = cnt3[key]++;
                    if (r.kind == K_EC && r.rep == op.on) ecs.push_back(CbPos{r.kind, r.site, (int16_t)n, r.aux, r.mach});
                }
                if (!ecs.empty()) {
                    const CbPos& c = ecs[rng.below((uint32_t)ecs.size())];
                    Post p;
                    p.cb = c.kind; p.site = c.site; p.nth = c.nth;
                    p.ev = (int16_t)postable[rng.below((uint32_t)postable.size())];
                    p.occ = occ++;
                    p.to_root = (pf.post_root && rng.chance(0.3)) || (!pf.post_sub && c.mach != 0);
                    p.api = (pf.post_enqueue && rng.chance(0.3)) ? API_ENQUEUE : API_PROCESS;
                    if (p.api == API_ENQUEUE && !pf.post_enqueue_sub && !p.to_root && c.mach != 0) p.to_root = 1;
                    op.posts.push_back(p);
                }
            }
        }
        // an earlier submission of the same op can change the flow, so that a later one fires in another context than
        // the fault-free dry run showed: run the op with its posts and turn every process_event that would reach a
        // machine which is not processing into enqueue_event (known finding KF-1 belongs to the `reentrant` profile)
        if (!op.posts.empty() && !pf.allow_reentrant) {
            for (int iter = 0; iter < 4; ++iter) {
                World t2(gw);
                size_t f2 = t2.env.trace.size();
                t2.exec(op, idx);
                bool changed = false;
                const Rec* host = nullptr;
                for (size_t i = f2; i < t2.env.trace.size(); ++i) {
                    const Rec& r = t2.env.trace[i];
                    if (r.kind <= K_EC) { host = &r; continue; }
                    if (r.kind != K_POST || !host || r.site != API_PROCESS) continue;
                    bool busy = r.val ? (host->aux & 2) : (host->aux & 1);
                    if (busy) continue;
                    for (auto& p : op.posts)
                        if (p.occ == r.occ && p.api == API_PROCESS) {
                            p.api = API_ENQUEUE;
                            if (!pf.post_enqueue_sub && !p.to_root && host->mach != 0) p.to_root = 1;
                            changed = true;
                        }
                }
                if (!changed) break;
            }
        }
    };
    auto emit = [&](Op op) {
        int idx = (int)plan.ops.size();
        attach_faults(op, idx);
        gw.exec(op, idx);
        plan.ops.push_back(op);
    };

    { Op s; s.kind = OP_START; s.on = 0; fill_gv(s); emit(s); }
    for (int i = 0; i < nops; ++i) {
        // pick a live replica
        std::vector<int> live;
        for (size_t r = 0; r < gw.reps.size(); ++r) if (gw.reps[r]) live.push_back((int)r);
        if (live.empty()) break;
        int on = live[rng.below((uint32_t)live.size())];
        bool started = gw.started[on];
        Op op;
        op.on = (int8_t)on;
        fill_gv(op);
        if (!started) {
            // a stopped (or moved-from) machine: restart, destroy or assign to it
            bool moved_from = gw.moved[on];
            std::vector<int> src;
            for (int r : live) if (r != on && !gw.moved[r]) src.push_back(r);
            if (pf.w_assign && !src.empty() && (moved_from || rng.chance(0.4))) {
                op.kind = (mp && pf.w_move && rng.chance(0.3)) ? OP_MOVE_ASSIGN : OP_ASSIGN;
                op.other = (int8_t)src[rng.below((uint32_t)src.size())];
            } else if (moved_from) op.kind = OP_DESTROY;
            else op.kind = OP_START;
            emit(op);
            continue;
        }
        Snap snap;
        gw.reps[on]->snapshot(snap);
        bool queues_empty = true;
        for (size_t mi = 0; mi < d.machines.size(); ++mi) if (snap.qmsg[mi] > 0 || snap.qdef[mi] > 0) queues_empty = false;
        struct W { int kind; int w; };
        std::vector<W> ws = {
            {OP_PROCESS, pf.w_process}, {OP_ENQUEUE, pf.w_enqueue}, {OP_DRAIN, pf.w_drain}, {OP_DRAIN1, pf.w_drain1},
            {OP_DEFER, can_defer_api ? pf.w_defer : 0}, {OP_STOP, (pf.stop_when_drained && !queues_empty) ? 0 : pf.w_stopstart},
            {OP_COPY, (int)gw.reps.size() < pf.max_replicas ? pf.w_copy : 0},
            {OP_ASSIGN, live.size() > 1 ? pf.w_assign : 0},
            {OP_MOVE, mp && (int)gw.reps.size() < pf.max_replicas ? pf.w_move : 0},
            {OP_SAVELOAD, (!mp && d.serializable && queues_empty) ? pf.w_saveload : 0},
            {OP_CLEARQ, !mp ? pf.w_clearq : 0}, {OP_DESTROY, live.size() > 1 ? pf.w_destroy : 0},
            {OP_OBSERVE, pf.w_observe}, {OP_SUBPROCESS, d.machines.size() > 1 ? pf.w_sub : 0},
            {OP_SETDATA, pf.w_setdata},
        };
        int total = 0;
        for (auto& w : ws) total += w.w;
        int pick = (int)rng.below((uint32_t)total);
        int kind = OP_PROCESS;
        for (auto& w : ws) { if (pick < w.w) { kind = w.kind; break; } pick -= w.w; }
        op.kind = (uint8_t)kind;
        switch (kind) {
            case OP_PROCESS: case OP_ENQUEUE: case OP_DEFER: case OP_SUBPROCESS:
                op.ev = (int16_t)alphabet[rng.below((uint32_t)alphabet.size())];
                op.occ = occ++;
                if (kind == OP_SUBPROCESS) op.other = (int8_t)(1 + rng.below((uint32_t)d.machines.size() - 1));
                break;
            case OP_ASSIGN: {
                std::vector<int> src;
                for (int r : live) if (r != on && !gw.moved[r]) src.push_back(r);
                if (src.empty()) { op.kind = OP_PROCESS; op.ev = (int16_t)alphabet[0]; op.occ = occ++; }
                else op.other = (int8_t)src[rng.below((uint32_t)src.size())];
                break;
            }
            case OP_SAVELOAD:
                op.arg = (int8_t)rng.below(2);
                op.val = (pf.saveload_keep && (int)gw.reps.size() < pf.max_replicas && rng.chance(0.5)) ? 1 : 0;
                break;
            case OP_CLEARQ: op.arg = (int8_t)rng.below(2); break;
            case OP_SETDATA: {
                std::vector<int> ds;
                for (size_t g = 0; g < d.states.size(); ++g) if (d.states[g].has_data) ds.push_back((int)g);
                if (ds.empty()) { op.kind = OP_PROCESS; op.ev = (int16_t)alphabet[0]; op.occ = occ++; }
                else { op.arg = (int8_t)ds[rng.below((uint32_t)ds.size())]; op.val = (int32_t)rng.below(1000); }
                break;
            }
            default: break;
        }
        emit(op);
    }
    set_env(nullptr);
    return plan;
}

} // namespace sim
