// sim/hooks.hpp -- glue used by the generated msm front-ends: every behaviour is a one-line call
// into one of these templates.  Included inside each generated translation unit *after* the
// event types and SIM_FOR_POSTABLE_EVENT have been defined.
#pragma once
#include "core.hpp"
#include <any>
#include <boost/any.hpp>
#include <type_traits>

namespace sim {

// ---- observing the active state ids of the fsm argument (any back-end)
template <class F>
inline uint32_t observe(const F& f) {
    uint32_t o = 0;
    constexpr int nr = F::SIM_NR;
    if constexpr (requires { f.get_active_state_ids(); }) {
        const auto& ids = f.get_active_state_ids();
        for (int i = 0; i < nr && i < 4; ++i) o |= ((uint32_t)ids[i] & 0xff) << (8 * i);
    } else {
        const int* ids = f.current_state();
        for (int i = 0; i < nr && i < 4; ++i) o |= ((uint32_t)ids[i] & 0xff) << (8 * i);
    }
    for (int i = nr; i < 4; ++i) o |= 0xffu << (8 * i);
    return o;
}

// ---- event info extraction
template <class T, class = void> struct has_sim_ev : std::false_type {};
template <class T> struct has_sim_ev<T, std::void_t<decltype(T::SIM_EV)>> : std::true_type {};
template <class T, class = void> struct has_contained : std::false_type {};
template <class T> struct has_contained<T, std::void_t<typename T::contained_event>> : std::true_type {};

// any-probing and posting helpers are supplied by the generated TU and found by ADL through F
template <class F, class E>
inline EvInfo evinfo(const E& e, F* tag) {
    if constexpr (has_contained<E>::value) {
        return evinfo(e.m_event, tag);      // back's direct_entry_event wrapper
    } else if constexpr (std::is_same_v<E, boost::any> || std::is_same_v<E, std::any>) {
        return sim_probe_any(e, tag);
    } else if constexpr (has_sim_ev<E>::value) {
        EvInfo i; i.occ = e.occ; i.chk = e.chk; i.type = E::SIM_EV; i.dyn = E::SIM_EV;
        if constexpr (requires { e.sim_verify(); }) {
            if (!e.sim_verify()) i.chk ^= 0x0badbad0u;   // C20: stored copy differs from the submitted object
        }
        if constexpr (requires { e.marker; }) {
            if (e.marker != 0x5a5a5a5a5a5a5a5aull || e.tail != 0xa5a5a5a5a5a5a5a5ull) i.chk ^= 0xdeadbeefu;
        }
        return i;
    } else if constexpr (requires { typename E::completion_event; }) {
        EvInfo i; i.occ = OCC_NONE; i.type = EV_NONE; i.dyn = EV_NONE; return i;
    } else {
        // start / stop events of the back-ends are told apart by the caller (entry => start)
        EvInfo i; i.occ = OCC_UNKNOWN; i.type = EV_UNKNOWN; i.dyn = EV_UNKNOWN; return i;
    }
}
template <class F, class E>
inline EvInfo evinfo_se(const E& e, bool entry, F* tag) {
    EvInfo i = evinfo(e, tag);
    if (i.type == EV_UNKNOWN) { i.type = i.dyn = entry ? EV_START : EV_STOP; i.occ = entry ? OCC_START : OCC_STOP; }
    return i;
}

// ---- performing the re-entrant submissions attached to a callback

template <class F>
inline void run_cb(Cb& cb, F& f, int rep) {
    for (int i = 0; i < cb.npost; ++i) {
        Post& p = *cb.posts[i];
        p.fired = true;
        env().log_post(p, rep, F::SIM_MI);
        if (p.to_root) env().root_post(env().root_ctx, rep, p);
        else sim_do_post(f, p);
    }
    if (cb.do_throw) { env().log_throw(rep, F::SIM_MI); throw Injected(); }
}

template <class E, class F>
inline bool hook_guard(int site, const E& e, F& f) {
    Env& en = env();
    if (!en.enabled) return true;
    int rep = en.replica_of(&f);
    Cb cb = en.begin(K_G, site, rep, F::SIM_MI, evinfo(e, (F*)nullptr), observe(f));
    run_cb(cb, f, rep);
    return cb.value;
}
template <class E, class F>
inline void hook_action(int site, const E& e, F& f) {
    Env& en = env();
    if (!en.enabled) return;
    int rep = en.replica_of(&f);
    Cb cb = en.begin(K_A, site, rep, F::SIM_MI, evinfo(e, (F*)nullptr), observe(f));
    run_cb(cb, f, rep);
}
template <class E, class F>
inline void hook_entry(int site, const E& e, F& f, const void* self, bool mask_obs = false) {
    Env& en = env();
    if (!en.enabled) return;
    int rep = en.replica_of(&f);
    int srep = en.replica_of(self);
    Cb cb = en.begin(K_N, site, rep, F::SIM_MI, evinfo_se(e, true, (F*)nullptr), mask_obs ? 0u : observe(f), srep == rep ? 0 : 1000 + srep);
    run_cb(cb, f, rep);
}
template <class E, class F>
inline void hook_exit(int site, const E& e, F& f, const void* self, bool mask_obs = false) {
    Env& en = env();
    if (!en.enabled) return;
    int rep = en.replica_of(&f);
    int srep = en.replica_of(self);
    Cb cb = en.begin(K_X, site, rep, F::SIM_MI, evinfo_se(e, false, (F*)nullptr), mask_obs ? 0u : observe(f), srep == rep ? 0 : 1000 + srep);
    run_cb(cb, f, rep);
}
template <class E, class F>
inline void hook_no_transition(const E& e, F& f, int state) {
    Env& en = env();
    if (!en.enabled) return;
    int rep = en.replica_of(&f);
    Cb cb = en.begin(K_NT, F::SIM_MI, rep, F::SIM_MI, evinfo(e, (F*)nullptr), observe(f), state);
    run_cb(cb, f, rep);
}
template <class E, class F>
inline void hook_exception_caught(const E& e, F& f) {
    Env& en = env();
    if (!en.enabled) return;
    int rep = en.replica_of(&f);
    Cb cb = en.begin(K_EC, F::SIM_MI, rep, F::SIM_MI, evinfo(e, (F*)nullptr), observe(f));
    cb.do_throw = false; // never throw out of exception_caught
    run_cb(cb, f, rep);
}

} // namespace sim
