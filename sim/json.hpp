// sim/json.hpp -- tiny JSON value, parser and writer (enough for plans, replay and result lines)
#pragma once
#include <cstdint>
#include <cstdio>
#include <cstdlib>
#include <cstring>
#include <map>
#include <memory>
#include <stdexcept>
#include <string>
#include <vector>

namespace sim {

struct JV {
    enum T { NUL, BOOL, NUM, STR, ARR, OBJ } t = NUL;
    bool b = false;
    double n = 0;
    std::string s;
    std::vector<JV> a;
    std::vector<std::pair<std::string, JV>> o;

    JV() {}
    JV(bool x) : t(BOOL), b(x) {}
    JV(int x) : t(NUM), n(x) {}
    JV(long x) : t(NUM), n((double)x) {}
    JV(long long x) : t(NUM), n((double)x) {}
    JV(unsigned x) : t(NUM), n(x) {}
    JV(unsigned long x) : t(NUM), n((double)x) {}
    JV(double x) : t(NUM), n(x) {}
    JV(const char* x) : t(STR), s(x) {}
    JV(const std::string& x) : t(STR), s(x) {}
    static JV arr() { JV v; v.t = ARR; return v; }
    static JV obj() { JV v; v.t = OBJ; return v; }
    JV& push(const JV& v) { t = ARR; a.push_back(v); return *this; }
    JV& set(const std::string& k, const JV& v) {
        t = OBJ;
        for (auto& kv : o) if (kv.first == k) { kv.second = v; return *this; }
        o.push_back({k, v});
        return *this;
    }
    const JV* get(const std::string& k) const {
        for (auto& kv : o) if (kv.first == k) return &kv.second;
        return nullptr;
    }
    const JV& at(const std::string& k) const {
        const JV* p = get(k);
        if (!p) throw std::runtime_error("json: missing key " + k);
        return *p;
    }
    long long i(const std::string& k, long long dflt = 0) const { const JV* p = get(k); return p ? (long long)p->n : dflt; }
    std::string str(const std::string& k, const std::string& dflt = "") const { const JV* p = get(k); return p ? p->s : dflt; }
    bool has(const std::string& k) const { return get(k) != nullptr; }

    static void esc(const std::string& s, std::string& out) {
        out += '"';
        for (unsigned char c : s) {
            switch (c) {
                case '"': out += "\\\""; break;
                case '\\': out += "\\\\"; break;
                case '\n': out += "\\n"; break;
                case '\t': out += "\\t"; break;
                case '\r': out += "\\r"; break;
                default:
                    if (c < 0x20) { char b[8]; snprintf(b, sizeof b, "\\u%04x", c); out += b; }
                    else out += (char)c;
            }
        }
        out += '"';
    }
    void dump(std::string& out) const {
        switch (t) {
            case NUL: out += "null"; break;
            case BOOL: out += b ? "true" : "false"; break;
            case NUM: {
                char buf[40];
                if (n == (double)(long long)n && n > -9e15 && n < 9e15) snprintf(buf, sizeof buf, "%lld", (long long)n);
                else snprintf(buf, sizeof buf, "%.6g", n);
                out += buf;
                break;
            }
            case STR: esc(s, out); break;
            case ARR:
                out += '[';
                for (size_t k = 0; k < a.size(); ++k) { if (k) out += ','; a[k].dump(out); }
                out += ']';
                break;
            case OBJ:
                out += '{';
                for (size_t k = 0; k < o.size(); ++k) { if (k) out += ','; esc(o[k].first, out); out += ':'; o[k].second.dump(out); }
                out += '}';
                break;
        }
    }
    std::string dump() const { std::string s; dump(s); return s; }
};

struct JParser {
    const char* p;
    const char* e;
    explicit JParser(const std::string& s) : p(s.data()), e(s.data() + s.size()) {}
    void ws() { while (p < e && (*p == ' ' || *p == '\n' || *p == '\t' || *p == '\r')) ++p; }
    [[noreturn]] void fail(const char* m) { throw std::runtime_error(std::string("json parse: ") + m); }
    JV parse() { ws(); JV v = val(); ws(); return v; }
    JV val() {
        ws();
        if (p >= e) fail("eof");
        if (*p == '{') {
            ++p; JV v = JV::obj(); ws();
            if (p < e && *p == '}') { ++p; return v; }
            for (;;) {
                ws(); std::string k = str(); ws();
                if (p >= e || *p != ':') fail("expected :");
                ++p; JV x = val(); v.o.push_back({k, x}); ws();
                if (p < e && *p == ',') { ++p; continue; }
                if (p < e && *p == '}') { ++p; break; }
                fail("expected , or }");
            }
            return v;
        }
        if (*p == '[') {
            ++p; JV v = JV::arr(); ws();
            if (p < e && *p == ']') { ++p; return v; }
            for (;;) {
                v.a.push_back(val()); ws();
                if (p < e && *p == ',') { ++p; continue; }
                if (p < e && *p == ']') { ++p; break; }
                fail("expected , or ]");
            }
            return v;
        }
        if (*p == '"') { JV v; v.t = JV::STR; v.s = str(); return v; }
        if (!strncmp(p, "true", 4)) { p += 4; return JV(true); }
        if (!strncmp(p, "false", 5)) { p += 5; return JV(false); }
        if (!strncmp(p, "null", 4)) { p += 4; return JV(); }
        char* end = nullptr;
        double d = strtod(p, &end);
        if (end == p) fail("bad value");
        p = end;
        return JV(d);
    }
    std::string str() {
        if (p >= e || *p != '"') fail("expected string");
        ++p;
        std::string s;
        while (p < e && *p != '"') {
            if (*p == '\\') {
                ++p;
                if (p >= e) fail("bad escape");
                switch (*p) {
                    case 'n': s += '\n'; break;
                    case 't': s += '\t'; break;
                    case 'r': s += '\r'; break;
                    case 'b': s += '\b'; break;
                    case 'f': s += '\f'; break;
                    case 'u': {
                        if (p + 4 >= e) fail("bad \\u");
                        unsigned c = (unsigned)strtoul(std::string(p + 1, p + 5).c_str(), nullptr, 16);
                        p += 4;
                        if (c < 0x80) s += (char)c;
                        else if (c < 0x800) { s += (char)(0xc0 | (c >> 6)); s += (char)(0x80 | (c & 0x3f)); }
                        else { s += (char)(0xe0 | (c >> 12)); s += (char)(0x80 | ((c >> 6) & 0x3f)); s += (char)(0x80 | (c & 0x3f)); }
                        break;
                    }
                    default: s += *p;
                }
                ++p;
            } else s += *p++;
        }
        if (p >= e) fail("unterminated string");
        ++p;
        return s;
    }
};

inline JV jparse(const std::string& s) { return JParser(s).parse(); }

} // namespace sim
