// sim/model.hpp -- executable reference model of the documented msm semantics (DESIGN.md section 5).
// One interpreter over the Desc tables of a spec; dialect switches only for differences the
// documentation / the property quantifiers declare legitimate.
#pragma once
#include "desc.hpp"
#include "imachine.hpp"
#include <deque>

namespace sim {

enum { R_FALSE = 0, R_TRUE = 1, R_REJECT = 2, R_DEFERRED = 4 };
enum { SRC_DEFAULT = 0, SRC_DIRECT = 1, SRC_DEFERRED = 2, SRC_MSGQ = 4 };
enum { INFO_DIRECT = 0, INFO_SUB = 1, INFO_POOL = 2 };

struct Dialect {
    int backend = 0;  // 0 = back / back11, 1 = backmp11
    bool ct = false;  // favor_compile_time
    int switch_override = -1;
    // named quirks (tied to known_findings.json entries; all false on a repaired tree)
    bool q_start_not_busy = false;       // F-D: back start() runs posted events re-entrantly
    bool q_mp_action_defer_requeue = true; // KF-2: backmp11 re-queues an occurrence that a Defer action defers again at the back of the pool
};

struct MEv { int16_t ev; int32_t occ; };

struct BQItem { MEv e; uint8_t source; };
struct BDItem { MEv e; int8_t seq; };
struct PItem {
    uint8_t kind;      // 0 = deferred_event, 1 = completion occurrence
    MEv e;
    uint16_t seq;
    bool marked;
    int state;         // completion: global state index
    int region;
};

struct MInst {
    bool running = false;
    bool busy = false;
    std::vector<int> active;   // lib ids per region (what the library would report)
    std::vector<int> hist;     // lib ids per region
    std::deque<BQItem> q_msg;
    std::deque<BDItem> q_def;
    int8_t cur_seq = 0;
    std::deque<PItem> pool;
    uint16_t cur_seq_cnt = 0;
};

class Model : public IMachine {
  public:
    Model(const Desc& d, const Dialect& dl, int rep);
    Model(const Model&) = default;
    void set_rep(int r) { rep_ = r; }

    void start() override;
    void stop() override;
    int process(int ev, int32_t occ) override;
    void enqueue(int ev, int32_t occ) override;
    void defer(int ev, int32_t occ) override;
    void drain() override;
    void drain_one() override;
    int sub_process(int mach, int ev, int32_t occ) override;
    IMachine* clone() const override { return new Model(*this); }
    void assign_from(const IMachine& o) override;
    IMachine* move_out() override;
    bool move_assign_from(IMachine& o) override;
    bool save(int fmt, std::string& out) override;
    bool load(int fmt, const std::string& in) override;
    void snapshot(Snap& s) const override;
    void extent(const char*& lo, const char*& hi) const override { lo = hi = nullptr; }
    int flag(int mach, int flag) const override;
    int state_active(int gstate) const override;
    bool visit(int mode, std::vector<int>& out) override;
    int state_by_id(int mach, int id) const override;
    void clear_queue(int which) override;
    long live_tracked() const override;
    void post(const Post& p) override;
    int state_data(int g) const override { return data_[g]; }
    void set_state_data(int g, int v) override { data_[g] = v; }

  private:
    const Desc* d_;
    Dialect dl_;
    int rep_;
    std::vector<MInst> inst_;
    std::vector<int> data_;

    bool mp() const { return dl_.backend == 1; }
    const DMachine& M(int mi) const { return d_->machines[mi]; }
    const DState& S(int s) const { return d_->states[s]; }
    int state_of(int mi, int lib_id) const { return M(mi).states[lib_id]; }
    int policy(int mi) const { return dl_.switch_override >= 0 ? dl_.switch_override : M(mi).switch_policy; }
    uint32_t obs(int mi) const;
    EvInfo info(const MEv& e) const;
    EvInfo info_static(const MEv& e, int trigger) const;
    bool matches(int trigger, int ev) const;
    bool is_base_of(int base, int ev) const;

    // behaviour invocation through Env (logs, decides, may throw / post)
    bool call_guard_leaf(int leaf, int mi, const EvInfo& e);
    bool eval_guard(int node, int mi, const EvInfo& e);
    void call(uint8_t kind, int site, int mi, const EvInfo& e, int val = 0, bool mask_obs = false);
    void run_cb(Cb& cb, int mi);
    void submit(int mi, const Post& p);

    // common pieces
    int own_site(int mi) const;
    void candidates(int mi, int s, int ev, std::vector<int>& rows, bool& forward) const;
    bool event_in_recursive_set(int mi, int ev, bool exact) const;
    bool mp_needs_forward(int mi, int ev) const;
    int run_chain(int mi, int region, int s, const MEv& e);
    int run_chain_rows(int mi, int region, const std::vector<int>& rows, const MEv& e, int first_result, bool have_first);
    int take_row(int mi, int region, int rid, const MEv& e);
    int run_actions(int mi, const DRow& r, const EvInfo& ei, const MEv& e);
    void exit_state(int mi, int s, const MEv& e, int trigger);
    void enter_target(int mi, const DRow& r, const MEv& e);
    void enter_simple(int mi, int s, const MEv& e, int trigger, bool by_row = false);
    void exit_machine(int mi, const MEv& e, int trigger, int fsm_mi);
    bool hist_applies(int mi, int static_ev_type) const;
    void set_active_by_history(int mi, int static_ev_type, bool wrapped);
    bool exit_pt_active(int sub_mi, int xp_state) const;
    bool flag_or(int mi, int flag, bool forward_into_sub) const;
    bool blocked_b(int mi, int ev) const;
    bool blocked_m(int mi, int ev) const;
    bool has_end_interrupt(int mi, int ev, bool recursive) const;
    bool has_internal_flag(int mi, int which, bool recursive) const; // 0 terminate, 1 interrupted

    // back dialect
    int b_process_internal(int mi, const MEv& e, int source);
    int b_do_process_event(int mi, const MEv& e, bool direct);
    int b_region(int mi, int region, const MEv& e);
    void b_defer(int mi, const MEv& e);
    void b_handle_deferred(int mi, bool new_seq);
    void b_process_msg_queue(int mi);
    void b_do_entry(int mi, const DRow* r, const MEv& e, int trigger, int fsm_mi);
    void b_internal_start(int mi, const MEv& e, int trigger);
    void b_completion(int mi, int source);

    // backmp11 dialect
    int m_process_internal(int mi, const MEv& e, int info);
    int m_do_process_event(int mi, const MEv& e, int info);
    bool m_is_event_deferred(int mi, int ev) const;
    void m_do_defer(int mi, const MEv& e, bool next_rtc_seq);
    size_t m_process_pool(int mi, size_t max_events);
    size_t m_do_process_pool(int mi, size_t max_events);
    int m_completion(int mi, int state, int region);
    void m_on_entry(int mi, const DRow* r, const MEv& e, int trigger, int fsm_mi);
    void m_entry_completed(int mi, int s, int region);
    void m_visit_active(int mi, bool recursive, std::vector<int>& out) const;
};

} // namespace sim
