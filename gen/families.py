"""Hand-written spec families (DESIGN.md appendix C).  Each function returns a spec dict."""


def conflict_flat():
    return {
        "name": "conflict_flat",
        "events": ["E0", "E1", "E2", "E3"],
        "machines": [{
            "name": "Top",
            "regions": [["A", "B", "C", "D"]],
            "rows": [
                "A + E0 [g0] / a0 -> B",
                "A + E0 [g1] / a1 -> C",
                "A + E0 / a2",
                "A + E0 [g2 && !g3] / a3 -> D",
                "B + E0 [g0] / a4 -> A",
                "B + E1 -> C",
                "B + E1 [g1] / a5 -> D",
                "C + E2 [g2 || g3] / a6 -> A",
                "C + E2 [g0] -> B",
                "C + E0 / a7 -> C",
                "D + E3 / a8 -> A",
                "D + E0 [g3] / a9",
                "D + E0 [g1] / a10 -> B",
            ],
            "state": {"A": {"internal": ["E0 [g4] / a11", "E1 / a12"]},
                      "D": {"internal": ["E0 [g5] / a13"]}},
        }],
    }


def nest2_mixed():
    return {
        "name": "nest2_mixed",
        "events": ["E0", "E1", "E2", "E3"],
        "machines": [
            {"name": "Top", "regions": [["A", "S", "B"]],
             "kinds": {"S": "sub:Sub"},
             "rows": [
                 "A + E0 / a0 -> S",
                 "A + E1 [g0] / a1 -> B",
                 "S + E1 [g1] / a2 -> B",
                 "S + E2 [g2] / a3 -> A",
                 "S + E0 [g3] / a4",
                 "B + E0 / a5 -> A",
                 "B + E3 [g4] -> S",
             ],
             "internal": ["E3 [g5] / a6"]},
            {"name": "Sub", "regions": [["P", "Q"], ["U", "V"]],
             "rows": [
                 "P + E1 [g6] / a7 -> Q",
                 "Q + E1 [g7] / a8 -> P",
                 "P + E2 [g8] / a9",
                 "U + E1 [g9] / a10 -> V",
                 "V + E2 [g10] / a11 -> U",
                 "V + E0 / a12 -> U",
             ],
             "internal": ["E2 [g11] / a13", "E3 [g12] / a14"]},
        ],
    }


def storage():
    """event classes by size / alignment / copy-move traits, stored in message queue, deferred queue and the
    backmp11 pool (inline and heap), in the root and in a sub-machine whose pool is reset on entry"""
    return {
        "name": "storage",
        "events": ["E0", {"name": "S1", "size_class": 1}, {"name": "S2", "size_class": 2}, {"name": "S3", "size_class": 3},
                   {"name": "S4", "size_class": 4}, {"name": "S5", "size_class": 5}, {"name": "S6", "size_class": 6}, "E7",
                   {"name": "S8", "size_class": 7}],
        "machines": [
            {"name": "Top", "regions": [["A", "B", "S"]], "kinds": {"S": "sub:Sub"},
             "rows": ["A + E0 / a0 -> B", "B + E0 / a1 -> S", "S + E0 [g0] / a2 -> A", "B + S1 / a3", "B + S2 / a4", "B + S3 / a5",
                      "B + S4 / a6", "B + S5 / a7", "B + S6 / a8", "A + E7 / a9", "B + E7 / a10 -> A", "S + E7 / a17 -> B", "B + S8 / a18"],
             "state": {"A": {"deferred": ["S1", "S2", "S3", "S4", "S5", "S6", "S8"]}}},
            {"name": "Sub", "regions": [["P", "Q"]],
             "rows": ["P + S2 / a11 -> Q", "Q + S3 / a12 -> P", "P + S4 / a13", "Q + S5 / a14", "P + S6 / a15", "Q + S1 / a16", "P + S8 / a19"]},
        ],
    }


ALL = {f.__name__: f for f in [conflict_flat, nest2_mixed]}


def conflict_ortho():
    """3 regions x 3 states reacting to the same 4 event types, guards everywhere"""
    return {
        "name": "conflict_ortho",
        "events": ["E0", "E1", "E2", "E3"],
        "machines": [{
            "name": "Top",
            "regions": [["A0", "A1", "A2"], ["B0", "B1", "B2"], ["C0", "C1", "C2"]],
            "rows": [
                "A0 + E0 [g0] / a0 -> A1", "A1 + E0 [g1] / a1 -> A2", "A2 + E0 / a2 -> A0",
                "A0 + E1 [g2] / a3", "A1 + E1 -> A0", "A0 + E0 [g3 || g4] / a4 -> A2",
                "B0 + E0 [g4] / a5 -> B1", "B1 + E0 [g5] / a6 -> B2", "B2 + E1 [g0] / a7 -> B0",
                "B0 + E1 / a8 -> B2", "B1 + E2 [g1 && g2] -> B0",
                "C0 + E0 [g6] / a9 -> C1", "C1 + E1 [g7] / a10 -> C2", "C2 + E2 / a11 -> C0",
                "C0 + E2 [g3] / a12", "C1 + E0 [!g6] / a13 -> C0",
            ],
            "internal": ["E3 [g8] / a14", "E2 [g9] / a15"],
        }],
    }


def order_rows():
    """every row kind of the functor front-end incl. self-transition and internal rows, one of each"""
    return {
        "name": "order_rows",
        "events": ["E0", "E1", "E2", "E3", "E4"],
        "machines": [{
            "name": "Top",
            "regions": [["A", "B", "C"]],
            "rows": [
                "A + E0 [g0] / a0 -> B",      # row
                "A + E1 / a1 -> B",           # a_row
                "A + E2 [g1] -> C",           # g_row
                "A + E3 -> C",                # _row
                "B + E0 [g2] / a2",           # irow
                "B + E1 / a3",                # a_irow
                "B + E2 [g3]",                # g_irow
                "B + E3",                     # _irow
                "B + E4 / a4,a5,a6 -> B",     # self transition with an action sequence
                "C + E0 [g4 && (g5 || !g6)] / a7 -> A",
                "C + E4 -> B",
            ],
            "state": {"C": {"internal": ["E1 [g7] / a8", "E2 / a9"]}},
            "internal": ["E4 [g8] / a10"],
        }],
    }


def nest3():
    """root > Mid(2 regions) > Leaf(1 region); every event has rows on at least two levels"""
    return {
        "name": "nest3",
        "events": ["E0", "E1", "E2", "E3"],
        "machines": [
            {"name": "Top", "regions": [["A", "M"]], "kinds": {"M": "sub:Mid"},
             "rows": ["A + E0 / a0 -> M", "M + E0 [g0] / a1 -> A", "M + E1 [g1] / a2", "M + E2 [g2] -> A", "A + E3 / a3"],
             "internal": ["E3 [g3] / a4"]},
            {"name": "Mid", "regions": [["P", "L"], ["U", "V"]], "kinds": {"L": "sub:Leaf"},
             "rows": ["P + E1 [g4] / a5 -> L", "L + E1 [g5] / a6 -> P", "L + E2 [g6] / a7", "U + E0 [g7] / a8 -> V",
                      "V + E0 [g8] / a9 -> U", "U + E2 [g9] / a10 -> V", "P + E3 [g10] / a11"],
             "internal": ["E2 [g11] / a12"]},
            {"name": "Leaf", "regions": [["X", "Y"]],
             "rows": ["X + E1 [g12] / a13 -> Y", "Y + E1 [g13] / a14 -> X", "X + E2 [g14] / a15 -> Y", "Y + E0 [g15] / a16",
                      "X + E3 / a17"],
             "internal": ["E0 [g16] / a18"]},
        ],
    }


def nest_inactive():
    """two sub-machine states of different types, only one active at a time"""
    return {
        "name": "nest_inactive",
        "events": ["E0", "E1", "E2"],
        "machines": [
            {"name": "Top", "regions": [["S1", "S2", "A"]], "kinds": {"S1": "sub:Sub1", "S2": "sub:Sub2"},
             "rows": ["S1 + E0 [g0] / a0 -> S2", "S2 + E0 [g1] / a1 -> S1", "S1 + E2 / a2 -> A", "A + E2 -> S2", "S2 + E2 [g2] / a3 -> A"],
             "state": {"S1": {"flags": ["F0"]}, "S2": {"flags": ["F1"]}}},
            {"name": "Sub1", "regions": [["P1", "Q1"]],
             "rows": ["P1 + E1 [g3] / a4 -> Q1", "Q1 + E1 / a5 -> P1", "P1 + E0 [g4] / a6"],
             "state": {"Q1": {"flags": ["F1"]}}},
            {"name": "Sub2", "regions": [["P2", "Q2"]],
             "rows": ["P2 + E1 [g5] / a7 -> Q2", "Q2 + E1 / a8 -> P2", "Q2 + E0 [g6] / a9"],
             "state": {"P2": {"flags": ["F0"]}}},
        ],
    }


def noevent():
    """events with no row / only false-able guards / only inner rows"""
    return {
        "name": "noevent",
        "events": ["E0", "E1", "E2", "E3", "E4"],
        "machines": [
            {"name": "Top", "regions": [["A", "S"], ["C", "D"]], "kinds": {"S": "sub:Sub"},
             "rows": ["A + E0 [g0] / a0 -> S", "S + E0 [g1] / a1 -> A", "C + E1 [g2] / a2 -> D", "D + E1 [g3] / a3 -> C",
                      "C + E0 [g4] / a4"]},
            {"name": "Sub", "regions": [["P", "Q"], ["U", "V"]],
             "rows": ["P + E2 [g5] / a5 -> Q", "Q + E2 [g6] / a6 -> P", "U + E2 [g7] / a7 -> V", "V + E3 / a8 -> U"],
             "internal": ["E3 [g8] / a9"]},
        ],
    }


def fork_entry():
    """Sub(3 regions) entered normally, by direct<>, by forks naming 1-3 regions, by entry_pt<>"""
    return {
        "name": "fork_entry",
        "events": ["E0", "E1", "E2", "E3", "E4", "E5", "E6"],
        "machines": [
            {"name": "Top", "regions": [["A", "S"]], "kinds": {"S": "sub:Sub"},
             "rows": ["A + E0 / a0 -> S", "A + E1 [g0] / a1 -> S.K0", "A + E2 / a2 -> S.K0|S.K1",
                      "A + E3 [g1] / a3 -> S.K0|S.K1|S.K2", "A + E4 / a4 -> S.EP", "A + E5 -> S.K2",
                      "S + E6 [g2] / a5 -> A", "A + E6 / a12 -> S.K1|S.K2",
                      # guard-only rows (their own row kind in back) into an explicit entry, a fork and an entry point
                      "A + E0 [g7] -> S.K1", "A + E2 [g8] -> S.K0|S.K2", "A + E4 [g9] -> S.EP"]},
            {"name": "Sub", "regions": [["P0", "K0", "Q0", "EP"], ["P1", "K1"], ["P2", "K2"]],
             "kinds": {"K0": "explicit", "K1": "explicit", "K2": "explicit", "EP": "entry_pt"},
             "state": {"K0": {"flags": ["F0"]}, "K1": {"flags": ["F0", "F1"]}, "Q0": {"flags": ["F1"]}, "P2": {"flags": ["F2"]}},
             "rows": ["P0 + E0 [g3] / a6 -> K0", "K0 + E0 / a7 -> Q0", "Q0 + E1 -> P0", "EP + E4 [g4] / a8 -> Q0",
                      "P1 + E1 [g5] / a9 -> K1", "K1 + E2 / a10 -> P1", "P2 + E2 [g6] / a11 -> K2", "K2 + E3 -> P2",
                     # completion transitions out of an explicit-entry state and out of an initial state that a partial fork enters by default
                     "K1 [g10] / a13 -> P1", "P2 [g11] / a14 -> K2"]},
        ],
    }


def exit_points():
    """Sub with 2 exit points (convertible events), guarded and unguarded outer rows, competing outer row"""
    return {
        "name": "exit_points",
        "events": ["E0", "E1", "E2", "E3", {"name": "X4", "exit": True}, {"name": "X5", "exit": True}],
        "machines": [
            {"name": "Top", "regions": [["A", "S", "B"]], "kinds": {"S": "sub:Sub"},
             "rows": ["A + E0 / a0 -> S", "S.XP1 + X4 [g0] / a1 -> B", "S.XP2 + X5 / a2 -> A", "S + X4 [g1] / a3 -> A",
                      "B + E0 / a4 -> A", "B + X5 / a5 -> S", "S + E3 [g2] / a6 -> B", "S.XP1 + X4 [g5] / a11 -> A"]},
            {"name": "Sub", "regions": [["P", "Q", "XP1"], ["U", "V", "XP2"]],
             "kinds": {"XP1": "exit_pt:X4", "XP2": "exit_pt:X5"},
             "rows": ["P + E1 [g3] / a7 -> Q", "Q + E1 / a8 -> XP1", "P + E2 -> XP1", "U + E2 [g4] / a9 -> V", "V + E2 / a10 -> XP2",
                      "Q + E0 -> P"]},
        ],
    }


def _history(policy, name):
    return {
        "name": name,
        "events": ["E0", "E1", "E2", "E3", "E4", "E5"],
        "machines": [
            {"name": "Top", "regions": [["A", "S"]], "kinds": {"S": "sub:Sub"},
             "rows": ["A + E0 / a0 -> S", "A + E1 / a1 -> S", "A + E4 [g0] / a2 -> S.K1", "A + E5 / a3 -> S.K0|S.K2",
                      "S + E3 [g1] / a4 -> A", "S + E4 / a5 -> A"],
             "state": {"A": {"smptr": True}}},          # sm_ptr policy states (back / back11) at both levels
            {"name": "Sub", "regions": [["P0", "Q0", "K0"], ["P1", "Q1", "K1"], ["P2", "Q2", "K2"]],
             "kinds": {"K0": "explicit", "K1": "explicit", "K2": "explicit"},
             "history": policy, "state": {"P0": {"smptr": True}, "Q1": {"smptr": True}},
             "rows": ["P0 + E0 [g2] / a6 -> Q0", "Q0 + E0 / a7 -> K0", "K0 + E0 -> P0",
                      "P1 + E1 [g3] / a8 -> Q1", "Q1 + E1 / a9 -> K1", "K1 + E1 -> P1",
                      "P2 + E2 [g4] / a10 -> Q2", "Q2 + E2 / a11 -> K2", "K2 + E2 -> P2"]},
        ],
    }


def history_none():
    return _history("none", "history_none")


def history_always():
    return _history("always", "history_always")


def history_shallow():
    return _history("shallow:E1,E5", "history_shallow")


def completion_chain():
    """chains of 1-4 completion rows, conflicts, guards, inside a sub-machine, from the initial state"""
    return {
        "name": "completion_chain",
        "events": ["E0", "E1", "E2"],
        "machines": [
            {"name": "Top", "regions": [["I", "A", "B", "C", "D", "S"]], "kinds": {"S": "sub:Sub"},
             "rows": ["I [g0] / a0 -> A", "A + E0 / a1 -> B", "B [g1] / a2 -> C", "B [g2] / a3 -> D", "C [g3] / a4 -> D",
                      "D [g4] / a5 -> A", "D + E1 / a6 -> S", "C + E0 / a7 -> A", "S + E2 / a8 -> I", "A + E2 [g5] / a9 -> I",
                      "D + E0 -> B", "I + E0 / a10 -> B"]},
            {"name": "Sub", "regions": [["P", "Q", "R"]],
             "rows": ["P [g6] / a11 -> Q", "Q [g7] / a12 -> R", "R + E0 / a13 -> P", "Q + E1 / a14 -> P", "P + E1 -> R"]},
        ],
    }


def defer_basic():
    """state-property deferral at root, several deferred types, several deferring and non-deferring states"""
    return {
        "name": "defer_basic",
        "events": ["E0", "E1", "E2", "E3"],
        "machines": [{
            "name": "Top", "regions": [["A", "B", "C", "D"]],
            "rows": ["A + E0 / a0 -> B", "B + E0 / a1 -> C", "C + E0 / a2 -> D", "D + E0 / a3 -> A",
                     "C + E1 [g0] / a4 -> A", "D + E1 / a5", "D + E2 [g1] / a6 -> B", "C + E2 / a7", "A + E3 / a8 -> C",
                     "B + E3 [g2] / a9 -> D"],
            "state": {"A": {"deferred": ["E1", "E2"]}, "B": {"deferred": ["E1"]}},
        }],
    }


def defer_action():
    """functor Defer with guard, activate_deferred_events"""
    return {
        "name": "defer_action",
        "events": ["E0", "E1", "E2"],
        "machines": [{
            "name": "Top", "regions": [["A", "B", "C"]], "activate_deferred": True,
            "rows": ["A + E0 / a0 -> B", "B + E0 / a1 -> C", "C + E0 / a2 -> A",
                     "A + E1 [g0] / Defer", "B + E1 [g1] / Defer", "C + E1 / a3", "B + E2 / Defer", "A + E2 [g2] / a4 -> C",
                     "C + E2 [g3] / a5 -> B"],
        }],
    }


def queue_flat():
    """flat machine whose behaviours post; every state reacts to the posted events"""
    return {
        "name": "queue_flat",
        "events": ["E0", "E1", "E2"],
        "machines": [{
            "name": "Top", "regions": [["A", "B", "C"], ["U", "V"]],
            "rows": ["A + E0 [g0] / a0 -> B", "B + E0 / a1 -> C", "C + E0 / a2 -> A", "A + E1 / a3 -> C", "B + E1 [g1] / a4",
                     "C + E1 / a5 -> B", "U + E2 / a6 -> V", "V + E2 [g2] / a7 -> U", "U + E1 [g3] / a8", "V + E0 / a9 -> U"],
        }],
    }


def queue_nested():
    """behaviours of a sub-machine post to self and to root"""
    return {
        "name": "queue_nested",
        "events": ["E0", "E1", "E2"],
        "machines": [
            {"name": "Top", "regions": [["A", "S"]], "kinds": {"S": "sub:Sub"},
             "rows": ["A + E0 / a0 -> S", "S + E0 [g0] / a1 -> A", "A + E1 / a2", "S + E2 [g1] / a3", "A + E2 / a4 -> S"]},
            {"name": "Sub", "regions": [["P", "Q"], ["U", "V"]],
             "rows": ["P + E1 / a5 -> Q", "Q + E1 [g2] / a6 -> P", "U + E2 / a7 -> V", "V + E2 / a8 -> U", "P + E2 [g3] / a9",
                      "V + E1 / a10"]},
        ],
    }


def blocking():
    """terminate and interrupt states (1 and several end events) in 3 regions, user flags on them"""
    return {
        "name": "blocking",
        "events": ["E0", "E1", "E2", "E3", "E4"],
        "machines": [{
            "name": "Top", "regions": [["A", "B", "T"], ["C", "I1", "D"], ["F", "I2"]],
            "kinds": {"T": "terminate", "I1": "interrupt:E3", "I2": "interrupt:E3,E4"},
            "rows": ["A + E0 / a0 -> B", "B + E0 / a1 -> A", "B + E1 [g0] / a2 -> T",
                     "C + E1 / a3 -> D", "D + E1 / a4 -> C", "C + E2 [g1] / a5 -> I1", "I1 + E3 / a6 -> D",
                     "F + E2 [g2] / a7 -> I2", "I2 + E3 [g3] / a8 -> F", "I2 + E4 / a9 -> F", "F + E0 / a10",
                     "A + E3 / a11", "D + E4 / a12 -> C",
                     # one event enters the terminate state in region 0 and an interrupt state in region 2: terminate wins
                     "F + E1 [g4] / a13 -> I2"],
            "state": {"T": {"flags": ["F0"]}, "I1": {"flags": ["F1"]}, "B": {"flags": ["F0"]}},
        }],
    }


def flags():
    """user flags on simple states, sub-machine states and sub-states"""
    return {
        "name": "flags",
        "events": ["E0", "E1", "E2"],
        "machines": [
            {"name": "Top", "regions": [["A", "S", "B"], ["C", "D"]], "kinds": {"S": "sub:Sub"},
             "rows": ["A + E0 / a0 -> S", "S + E0 [g0] / a1 -> B", "B + E0 / a2 -> A", "C + E1 / a3 -> D", "D + E1 / a4 -> C"],
             "state": {"A": {"flags": ["F0"]}, "S": {"flags": ["F1"]}, "C": {"flags": ["F0", "F2"]}, "D": {"flags": ["F1"]}}},
            {"name": "Sub", "regions": [["P", "Q"], ["U", "V"]],
             "rows": ["P + E2 / a5 -> Q", "Q + E2 / a6 -> P", "U + E1 [g1] / a7 -> V", "V + E2 / a8 -> U"],
             "state": {"P": {"flags": ["F2"]}, "Q": {"flags": ["F0"]}, "U": {"flags": ["F2", "F3"]}, "V": {"flags": ["F3"]}}},
        ],
    }


def events_hier():
    """event class hierarchy (2 levels), exact/base/Kleene triggers competing by position, also across levels"""
    return {
        "name": "events_hier",
        "events": ["EB", "ED:EB", "EDD:ED", "E1", "E2"],
        "machines": [
            {"name": "Top", "regions": [["A", "S", "B"]], "kinds": {"S": "sub:Sub"},
             "rows": ["A + EB [g0] / a0 -> B", "A + ED [g1] / a1 -> B", "A + * [g2] / a2", "A + EDD [g3] / a3 -> S",
                      "B + * / a4 -> A", "B + EB [g4] / a5", "S + EB [g5] / a6 -> A", "S + E1 / a7 -> B", "A + E2 / a13 -> S"]},
            {"name": "Sub", "regions": [["P", "Q"]],
             "rows": ["P + ED [g6] / a8 -> Q", "Q + EDD [g7] / a9 -> P", "Q + EB [g8] / a10", "P + * [g9] / a11", "Q + E2 / a12 -> P"],
             # the sub-machine's own internal table: a row triggered by the base class
             "internal": ["EB [g10] / a14"]},
        ],
    }


def serial_nested():
    """do_serialize states and front-end data, depth 3, history"""
    return {
        "name": "serial_nested",
        "serialize": True,
        "events": ["E0", "E1", "E2", "E3"],
        "machines": [
            {"name": "Top", "regions": [["A", "M"], ["C", "D"]], "kinds": {"M": "sub:Mid"},
             "rows": ["A + E0 / a0 -> M", "M + E0 [g0] / a1 -> A", "C + E3 / a2 -> D", "D + E3 / a3 -> C"],
             "state": {"A": {"data": True}, "D": {"data": True}, "M": {"data": True}}},        # M, L: data of a sub-machine's front-end
            {"name": "Mid", "regions": [["P", "L"], ["U", "V"]], "kinds": {"L": "sub:Leaf"}, "history": "always",
             "rows": ["P + E1 / a4 -> L", "L + E1 [g1] / a5 -> P", "U + E2 / a6 -> V", "V + E2 / a7 -> U"],
             "state": {"P": {"data": True}, "L": {"data": True}}},
            {"name": "Leaf", "regions": [["X", "Y", "Z"]], "history": "shallow:E1",
             "rows": ["X + E2 / a8 -> Y", "Y + E2 [g2] / a9 -> Z", "Z + E2 -> X", "Y + E3 / a10"],
             "state": {"Y": {"data": True}}},
        ],
    }


def storage():
    """event classes by size / alignment / copy-move traits, stored in message queue, deferred queue and the
    backmp11 pool (inline and heap), in the root and in a sub-machine whose pool is reset on entry"""
    return {
        "name": "storage",
        "events": ["E0", {"name": "S1", "size_class": 1}, {"name": "S2", "size_class": 2}, {"name": "S3", "size_class": 3},
                   {"name": "S4", "size_class": 4}, {"name": "S5", "size_class": 5}, {"name": "S6", "size_class": 6}, "E7",
                   {"name": "S8", "size_class": 7}],
        "machines": [
            {"name": "Top", "regions": [["A", "B", "S"]], "kinds": {"S": "sub:Sub"},
             "rows": ["A + E0 / a0 -> B", "B + E0 / a1 -> S", "S + E0 [g0] / a2 -> A", "B + S1 / a3", "B + S2 / a4", "B + S3 / a5",
                      "B + S4 / a6", "B + S5 / a7", "B + S6 / a8", "A + E7 / a9", "B + E7 / a10 -> A", "S + E7 / a17 -> B", "B + S8 / a18"],
             "state": {"A": {"deferred": ["S1", "S2", "S3", "S4", "S5", "S6", "S8"]}}},
            {"name": "Sub", "regions": [["P", "Q"]],
             "rows": ["P + S2 / a11 -> Q", "Q + S3 / a12 -> P", "P + S4 / a13", "Q + S5 / a14", "P + S6 / a15", "Q + S1 / a16", "P + S8 / a19"]},
        ],
    }


ALL = {f.__name__: f for f in [
    conflict_flat, nest2_mixed, conflict_ortho, order_rows, nest3, nest_inactive, noevent, fork_entry, exit_points,
    history_none, history_always, history_shallow, completion_chain, defer_basic, defer_action, queue_flat, queue_nested,
    blocking, flags, events_hier, serial_nested, storage]}


def fe_player():
    """the classic player, flat, expressible in every front-end (no sm-internal / state-local tables, no Defer)"""
    return {
        "name": "fe_player",
        "events": ["E0", "E1", "E2", "E3", "E4"],
        "machines": [{
            "name": "Top", "regions": [["Empty", "Open", "Stopped", "Playing", "Paused"]],
            "rows": [
                "Stopped + E0 [g0] / a0 -> Playing", "Stopped + E1 / a1 -> Open", "Stopped + E2 / a2",
                "Open + E1 / a3 -> Empty", "Empty + E1 / a4 -> Open", "Empty + E3 [g1 && !g2] / a5,a6 -> Stopped",
                "Empty + E3 [g3] / a7 -> Playing", "Playing + E2 / a8 -> Stopped", "Playing + E4 -> Paused",
                "Playing + E1 / a9,a10 -> Open", "Paused + E4 [g4 || g5] / a11 -> Playing", "Paused + E2 / a12 -> Stopped",
                "Paused + E1 / a13 -> Open", "Playing + E0 [g6]", "Open + E0 [!g0]",
            ],
            "state": {"Playing": {"flags": ["F0"]}, "Paused": {"flags": ["F0", "F1"]}},
        }],
    }


def fe_conflict():
    """conflicting rows with guard expression trees (one level of parentheses), internal rows, 2 regions, completion"""
    return {
        "name": "fe_conflict",
        "events": ["E0", "E1", "E2", "E3"],
        "machines": [{
            "name": "Top", "regions": [["A", "B", "C"], ["U", "V"]],
            "rows": [
                "A + E0 [g0 && g1 || g2] / a0 -> B", "A + E0 [!g0 && (g1 || g3)] / a1 -> C", "A + E0 [g4] / a2",
                "A + E0 / a3,a4,a5 -> A", "B + E1 [g0 || g1 && !g2] / a6 -> C", "B + E1 [!(g3 || g4)] / a7", "B + E1 -> A",
                "C + E2 [(g0 || g1) && g2] / a8 -> A", "C + E2 [g5 && !g1] -> B", "C [g6] / a9 -> A",
                "U + E3 [g2 && g3 && g4] / a10 -> V", "V + E3 [g0 || g2 || g5] / a11 -> U", "U + E0 [!g1] / a12",
                "V + E1 / a13 -> U",
            ],
        }],
    }


ALL["fe_player"] = fe_player
ALL["fe_conflict"] = fe_conflict


def fe_guard_shapes():
    """guard expressions with parentheses in every position the documented syntax '!, &&, ||, ()' allows"""
    return {
        "name": "fe_guard_shapes",
        "events": ["E0", "E1", "E2", "E3", "E4", "E5", "E6", "E7"],
        "machines": [{
            "name": "Top", "regions": [["A", "B"]],
            "rows": [
                "A + E0 [g0 || (g1) && g2] / a0",
                "A + E1 [g0 || (g1 && g2) && g3] / a1",
                "A + E2 [(g0 && g1) || g2 && g3] / a2",
                "A + E3 [g0 && (g1 || g2) || g3] / a3",
                "A + E4 [!(g0 && g1) || g2] / a4",
                "A + E5 [g0 && !(g1 || g2) && g3] / a5",
                "A + E6 [(g0 || g1) && g2 || g3] / a6",
                "A + E7 [g0 || g1 && (g2 || g3)] / a7 -> B",
                "B + E7 -> A",
            ],
        }],
    }


def fe_guard_groups():
    """two parenthesised groups and nested parentheses"""
    return {
        "name": "fe_guard_groups",
        "events": ["E0", "E1", "E2", "E3"],
        "machines": [{
            "name": "Top", "regions": [["A", "B"]],
            "rows": [
                "A + E0 [(g0 || g1) && (g2 || g3)] / a0",
                "A + E1 [(g0 && g1) || (g2 && g3)] / a1",
                "A + E2 [!(g0 || (g1 && g2)) && g3] / a2",
                "A + E3 [((g0 || g1) && g2) || !(g3)] / a3 -> B",
                "B + E3 -> A",
            ],
        }],
    }


ALL["fe_guard_shapes"] = fe_guard_shapes
ALL["fe_guard_groups"] = fe_guard_groups


def _ids_mixed(policy, name):
    """sub-machine whose rows are listed interleaved across its 3 regions, so that state ids are NOT monotone in the
    region index (region order and id order disagree in most configurations); entered normally, by direct entry, by
    forks naming a subset of regions; left from every configuration"""
    return {
        "name": name,
        "events": ["E0", "E1", "E2", "E3", "E4", "E5"],
        "machines": [
            {"name": "Top", "regions": [["A", "S"], ["C", "D"]], "kinds": {"S": "sub:Sub"},
             "rows": ["D + E5 / a12 -> C", "A + E0 / a0 -> S", "S + E3 [g0] / a1 -> A", "A + E4 / a2 -> S.K1", "C + E5 / a3 -> D",
                      "A + E5 [g1] / a4 -> S.K0|S.K2", "S + E4 / a5 -> A", "A + E1 / a13 -> S"]},
            {"name": "Sub", "regions": [["P0", "Q0", "K0"], ["P1", "Q1", "K1"], ["P2", "Q2", "K2"]],
             "kinds": {"K0": "explicit", "K1": "explicit", "K2": "explicit"},
             "history": policy,
             "rows": ["Q2 + E2 / a6 -> K2", "P1 + E1 [g2] / a7 -> Q1", "K0 + E0 -> P0", "P2 + E2 [g3] / a8 -> Q2",
                      "Q1 + E1 / a9 -> K1", "P0 + E0 [g4] / a10 -> Q0", "K2 + E2 -> P2", "Q0 + E0 / a11 -> K0", "K1 + E1 -> P1"]},
        ],
    }


def ids_mixed_none():
    return _ids_mixed("none", "ids_mixed_none")


def ids_mixed_always():
    return _ids_mixed("always", "ids_mixed_always")


def ids_mixed_shallow():
    return _ids_mixed("shallow:E1,E5", "ids_mixed_shallow")


ALL["ids_mixed_none"] = ids_mixed_none
ALL["ids_mixed_always"] = ids_mixed_always
ALL["ids_mixed_shallow"] = ids_mixed_shallow


def defer_cond():
    """backmp11: deferral by several active states at once (orthogonal regions, sub-machine state + active sub-state),
    some of them conditional (is_event_deferred decided per op by the plan)"""
    return {
        "name": "defer_cond",
        "events": ["E0", "E1", "E2", "E3"],
        "machines": [
            {"name": "Top", "regions": [["Busy", "Idle", "S"], ["Thr", "Open"]], "kinds": {"S": "sub:Sub"},
             "rows": ["Busy + E0 / a0 -> Idle", "Idle + E0 / a1 -> S", "S + E0 [g0] / a2 -> Busy", "Idle + E1 / a3", "Idle + E2 / a4 -> Busy",
                      "Thr + E3 / a5 -> Open", "Open + E3 / a6 -> Thr", "Open + E1 / a7", "Thr + E2 [g1] / a8"],
             "state": {"Busy": {"deferred": ["E1", "E2"]}, "Thr": {"deferred": ["E1"], "cond_defer": 0},
                       "S": {"deferred": ["E2"], "cond_defer": 1}}},
            {"name": "Sub", "regions": [["P", "Q"]],
             "rows": ["P + E1 / a9 -> Q", "Q + E1 / a10 -> P", "Q + E2 / a11", "P + E3 [g2] / a12"],
             "state": {"P": {"deferred": ["E2"], "cond_defer": 2}, "Q": {"deferred": ["E3"]}}},
        ],
    }


ALL["defer_cond"] = defer_cond


def nest3_deep():
    """root > Mid > Leaf where some events occur in the innermost machine only (its table, a state-local table, its own
    internal table), one of them competing with a root row on the Mid state; flags carried by the deepest states only"""
    return {
        "name": "nest3_deep",
        "events": ["E0", "E1", "E2", "E3", "E4", "E5", "E6"],
        "machines": [
            {"name": "Top", "regions": [["A", "M"], ["C", "D"]], "kinds": {"M": "sub:Mid"},
             "rows": ["A + E0 / a0 -> M", "M + E0 [g0] / a1 -> A", "M + E4 [g1] / a2 -> A", "C + E1 / a3 -> D", "D + E1 / a4 -> C",
                      "M + E5 [g12] / a17 -> A"],
             "state": {"C": {"flags": ["F2"]}}},
            {"name": "Mid", "regions": [["P", "L"], ["U", "V"]], "kinds": {"L": "sub:Leaf"},
             "rows": ["P + E1 [g2] / a5 -> L", "L + E1 [g3] / a6 -> P", "U + E2 [g4] / a7 -> V", "V + E2 / a8 -> U", "P + E0 [g5] -> L"],
             "state": {"U": {"flags": ["F1"]}, "L": {"flags": ["F1"]}}},
            {"name": "Leaf", "regions": [["X", "Y"], ["Z", "W"]],
             "rows": ["X + E3 [g6] / a9 -> Y", "Y + E3 / a10 -> X", "X + E4 [g7] / a11 -> Y", "Y + E4 [g8] / a12", "Z + E3 [g9] / a13 -> W",
                      "W + E2 [g10] / a14 -> Z"],
             "internal": ["E6 [g11] / a15"],
             "state": {"Y": {"flags": ["F0"], "internal": ["E5 [g13] / a16"]}, "W": {"flags": ["F0", "F3"]}, "X": {"flags": ["F3"]}}},
        ],
    }


ALL["nest3_deep"] = nest3_deep


def ids_implicit():
    """a transition-less initial state next to states that occur in the Next column only (finding KF-3: the back-ends
    number them differently)"""
    return {
        "name": "ids_implicit",
        "events": ["E0", "E1", "E2", "E3"],
        "machines": [
            {"name": "Top", "regions": [["A", "S"]], "kinds": {"S": "sub:Sub"},
             "rows": ["A + E0 / a0 -> S", "S + E1 [g0] / a1 -> A"]},
            {"name": "Sub", "regions": [["P", "Q", "R"], ["B"]],
             "rows": ["P + E2 [g1] / a2 -> Q", "P + E3 / a3 -> R"]},
        ],
    }


def hist_exit_pt():
    """an always-history sub-machine that is left through an exit point and re-entered (finding KF-4: back forwards again
    from the entry of the restored exit point, backmp11 stays in it)"""
    return {
        "name": "hist_exit_pt",
        "events": ["E0", "E1", "E2", {"name": "X3", "exit": True}],
        "machines": [
            {"name": "Top", "regions": [["A", "S"]], "kinds": {"S": "sub:Sub"},
             "rows": ["A + E0 / a0 -> S", "S.XP + X3 / a1 -> A", "A + E1 [g0] -> S", "S + E0 [g2] / a3 -> A"]},
            {"name": "Sub", "regions": [["P", "Q", "XP"]], "kinds": {"XP": "exit_pt:X3"}, "history": "always",
             "rows": ["P + E2 [g1] -> Q", "Q + E2 / a2 -> XP", "P + E1 -> XP", "Q + E1 -> P"]},
        ],
    }


ALL["ids_implicit"] = ids_implicit
ALL["hist_exit_pt"] = hist_exit_pt


def blocking_completion():
    """terminate / interrupt states next to regions with completion transitions: the same event enters a completion
    source in a lower and in a higher region than the blocking state; an end-interrupt event enters completion sources"""
    return {
        "name": "blocking_completion",
        "events": ["E0", "E1", "E2", "E3", "E4"],
        "machines": [{
            "name": "Top", "regions": [["A", "B", "C"], ["Ok", "I", "T"], ["P", "Q", "R"]],
            "kinds": {"T": "terminate", "I": "interrupt:E3"},
            "rows": ["A + E0 / a0 -> B", "B [g0] / a1 -> C", "C + E1 / a2 -> A", "C + E3 / a3 -> B",
                     "Ok + E0 [g1] / a4 -> I", "I + E3 [g2] / a5 -> Ok", "Ok + E2 [g3] / a6 -> T", "Ok + E4 / a7",
                     "P + E0 / a8 -> Q", "Q / a9 -> R", "R + E1 / a10 -> P", "P + E3 / a11 -> Q", "R + E2 [g4] -> Q"],
            "state": {"I": {"flags": ["F0"]}},
        }],
    }


ALL["blocking_completion"] = blocking_completion


def completion_regions():
    """one event enters completion sources in two regions (finding KF-5: order of the completion steps across regions)"""
    return {
        "name": "completion_regions",
        "events": ["E0", "E1", "E2"],
        "machines": [{
            "name": "Top", "regions": [["A", "B", "C"], ["P", "Q", "R"]],
            "rows": ["A + E0 / a0 -> B", "B [g0] / a1 -> C", "C + E1 / a2 -> A", "B + E1 -> A",
                     "P + E0 / a3 -> Q", "Q / a4 -> R", "R + E1 / a5 -> P", "P + E2 [g1] / a6 -> Q"],
        }],
    }


ALL["completion_regions"] = completion_regions


def internal_guard_only():
    """guard-only rows (no action) in a state-local and in an sm-internal table, competing with table rows for the same event
    (second seeded defect C14: the functor Internal<Event, none, Guard> row)"""
    return {
        "name": "internal_guard_only",
        "events": ["E0", "E1", "E2", "E3"],
        "machines": [
            {"name": "Top", "regions": [["A", "B", "S"]], "kinds": {"S": "sub:Sub"},
             "rows": ["A + E0 / a0 -> B", "A + E1 [g4] / a1 -> B", "B + E0 / a2 -> A", "A + E2 / a3 -> S", "S + E2 [g5] / a4 -> A", "B + E3 / a8 -> A"],
             "internal": ["E3 [g9] / a9", "E3 [g0]", "E1 [g10] / a10", "E1 [g11] / a11"],     # conflicting rows: the last declared is tried first
             "state": {"A": {"internal": ["E0 [g1]", "E1 [g2] / a5"]}, "B": {"internal": ["E2 [!g3]"]}}},
            {"name": "Sub", "regions": [["P", "Q"]],
             "rows": ["P + E0 / a6 -> Q", "Q + E0 -> P", "P + E3 / a7 -> Q"],
             "internal": ["E1 [g6]"],
             "state": {"P": {"internal": ["E0 [g7 && g8]"]}}},
        ],
    }


ALL["internal_guard_only"] = internal_guard_only


def kleene_defer():
    """a Kleene-triggered row whose action defers the event (the payload and the dynamic type must survive the deferred
    queue: C18 "queued or deferred in between"); rows of Work are action-only or guard-only so that back11 compiles them"""
    return {
        "name": "kleene_defer",
        "events": ["EB", "ED:EB", "E1", "E2"],
        "machines": [{
            "name": "Top", "regions": [["Hold", "Work", "Done"]], "activate_deferred": True,
            "rows": ["Hold + * [g0] / Defer", "Hold + E2 / a0 -> Work", "Work + ED / a1", "Work + EB / a2 -> Done", "Work + E1 / a3 -> Hold",
                     "Done + E1 -> Hold", "Done + EB / a4", "Work + E2 [g1]"],
        }],
    }


def exit_points_plain():
    """exit points whose outer rows are guard-less (action-only or plain), so that back11 compiles them; the exit event
    can be sent from outside while the exit point is inactive (second seeded defect C19, back11 under the switch policies)"""
    return {
        "name": "exit_points_plain",
        "events": ["E0", "E1", "E2", {"name": "X3", "exit": True}, {"name": "X4", "exit": True}],
        "machines": [
            {"name": "Top", "regions": [["A", "S", "B"]], "kinds": {"S": "sub:Sub"},
             "rows": ["A + E0 / a0 -> S", "S.XP1 + X3 / a1 -> B", "S.XP2 + X4 -> A", "B + E0 / a2 -> A", "B + X4 / a3 -> S", "S + E2 [g0] -> B"]},
            {"name": "Sub", "regions": [["P", "Q", "XP1"], ["U", "V", "XP2"]],
             "kinds": {"XP1": "exit_pt:X3", "XP2": "exit_pt:X4"},
             "rows": ["P + E1 [g1] -> Q", "Q + E1 / a4 -> XP1", "U + E2 / a5 -> V", "V + E2 -> XP2", "Q + E0 -> P"]},
        ],
    }


ALL["kleene_defer"] = kleene_defer
ALL["exit_points_plain"] = exit_points_plain


def defer_queue_first():
    """deferring states with the back / back11 option event_queue_before_deferred_queue: what a replayed deferred event
    submits must still be drained (third seeded defect C04)"""
    sp = defer_basic()
    sp["name"] = "defer_queue_first"
    sp["machines"][0]["queue_first"] = True
    return sp


ALL["defer_queue_first"] = defer_queue_first


def root_history():
    """a history policy on the ROOT machine (third seeded defect C03): start() after stop() begins in the initial states
    again in back / back11"""
    return {
        "name": "root_history",
        "events": ["E0", "E1", "E2"],
        "machines": [{
            "name": "Top", "regions": [["A", "B", "C"], ["X", "Y"]], "history": "always",
            "rows": ["A + E0 / a0 -> B", "B + E0 [g0] / a1 -> C", "C + E0 -> A", "X + E1 / a2 -> Y", "Y + E1 [g1] -> X", "B + E2 / a3", "A + E2 -> C"],
        }],
    }


ALL["root_history"] = root_history


def entry_pt_noqueue():
    """fork_entry with a sub-machine that declares no_message_queue (back / back11): the second leg of an entry-point
    transition must still be taken (third seeded defect C09); run without re-entrant submissions"""
    sp = fork_entry()
    sp["name"] = "entry_pt_noqueue"
    sp["machines"][1]["no_queue"] = True
    return sp


ALL["entry_pt_noqueue"] = entry_pt_noqueue


def defer_sub():
    """a state inside a sub-machine defers an event: the occurrence waits in the sub-machine's own deferred queue; the
    sub-machine can be left by an outer transition whose exit cascade may throw (third seeded defect C12)"""
    return {
        "name": "defer_sub",
        "events": ["E0", "E1", "E2", "E3"],
        "machines": [
            {"name": "Top", "regions": [["A", "S"]], "kinds": {"S": "sub:Sub"},
             "rows": ["A + E0 / a0 -> S", "S + E2 [g0] / a1 -> A", "A + E3 / a5", "A + E1 / a6"]},
            {"name": "Sub", "regions": [["P", "Q"]],
             "rows": ["P + E3 / a2 -> Q", "Q + E1 / a3 -> P", "Q + E3 [g1] / a4 -> P"],
             "state": {"P": {"deferred": ["E1"]}}},
        ],
    }


ALL["defer_sub"] = defer_sub


def fork_flags():
    """fork_entry without its completion rows: a sub-machine whose first entry is an explicit entry, a fork or an entry point,
    with flags on the states behind them -- nothing but the flag and introspection answers depends on the recursive visitors"""
    sp = fork_entry()
    sp["name"] = "fork_flags"
    sp["machines"][1]["rows"] = [r for r in sp["machines"][1]["rows"] if " + " in r.split("->")[0].split("[")[0].split("/")[0]]
    return sp


ALL["fork_flags"] = fork_flags
