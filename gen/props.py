"""props.py -- which families / variants / profiles decide which property, and how many plans per tier."""

ALLV = ["B", "BC", "M", "MA", "MC"]

# which variants each family is built for (default: ALLV)
FAMILY_VARIANTS = {
    "events_hier": ["B", "M"],          # base-class / Kleene triggers: run-time-speed policies with flat_fold only (C18 quantifier)
    "serial_nested": ["B", "BC"],       # Boost.Serialization is offered by back / back11 only
}


def variants_of(family):
    return FAMILY_VARIANTS.get(family, ALLV)


def job(family, variants, profile, quick, thorough, san="", shards=4):
    return {"family": family, "variants": variants, "profile": profile, "quick": quick, "thorough": thorough,
            "san": san, "shards": shards}


PROPS = {
    "C01": {
        "jobs": [job("conflict_flat", ALLV, "plain", 2000, 100000),
                 job("nest2_mixed", ALLV, "plain", 2000, 100000),
                 job("nest2_mixed", ALLV, "posts", 1000, 50000)],
        "nontrivial": ["multi_candidate"],
        "rule": "seeded plans (start + 4..16 events, independent guard vector per event) on generated machines; a run is "
                "non-trivial when at least one dispatch consulted >= 2 guards; distinct = distinct full trace hash per (family, variant)",
    },
}
