"""props.py -- which families / variants / profiles decide which property, and how many plans per tier."""

ALLV = ["B", "BC", "M", "MA", "MC"]


def job(family, variants, profile, quick, thorough, san="", shards=4):
    return {"family": family, "variants": variants, "profile": profile, "quick": quick, "thorough": thorough,
            "san": san, "shards": shards}


PROPS = {
    "C01": {
        "jobs": [job("conflict_flat", ALLV, "plain", 2000, 100000),
                 job("nest2_mixed", ALLV, "plain", 2000, 100000),
                 job("nest2_mixed", ALLV, "posts", 1000, 50000)],
        "nontrivial": ["multi_candidate"],
        "rule": "seeded plans (start + 4..16 events, independent guard vector per event) on generated machines; a run is "
                "non-trivial when at least one dispatch consulted >= 2 guards; distinct = distinct full trace hash per (family, variant)",
    },
}
