"""props.py -- which families / variants / profiles decide which property, and how many plans per tier.

A job = (family, variants, profile, mode); mode "lockstep" runs every variant against the reference
model, "diff:<what>" runs all listed variants on the same plans and compares them with each other.
Counts are plans per variant (lockstep) or per job (diff)."""

ALLV = ["B", "BC", "M", "MA", "MC"]
POLV = ["B+p1", "B+p2", "B+p3", "M+p1", "M+p2", "M+p3", "BC+p3", "MC+p3"]

# which variants each family is built for (default: ALLV)
FAMILY_VARIANTS = {
    "events_hier": ["B", "M"],          # base-class / Kleene triggers: run-time-speed policies with flat_fold only (C18 quantifier)
    "serial_nested": ["B", "BC"],       # Boost.Serialization is offered by back / back11 only
    "defer_cond": ["M", "MA", "MC"],    # deferral at any depth / in any region, conditional deferral: backmp11 only (C05 quantifier)
    "nest2_mixed": ALLV + POLV,
    "order_rows": ALLV + POLV,
    "conflict_ortho": ALLV + POLV,
    "completion_chain": ALLV + POLV,
    "conflict_flat": ALLV + ["B11+p1", "B11+p2", "B11+p3", "B+p1", "B+p2", "B+p3", "M+p1", "M+p2", "M+p3"],
    "history_always": ALLV + ["B11+p1", "B11+p3"],
    "kleene_defer": ["B", "B11", "M"],
    "entry_pt_noqueue": ["B", "BC", "B11"],     # no_message_queue is an option of back / back11       # Kleene triggers: run-time-speed policies with flat_fold dispatch (C18 quantifier)
    "exit_points_plain": ALLV + ["B11", "B11+p1", "B11+p2", "B11+p3", "B+p1", "B+p3", "M+p2", "M+p3"],
    "flags": ALLV + ["B+p3", "M+p3"],
    "fe_player": ["B", "B+feR", "B+feR2", "B+feP", "B+feE", "BC+feE", "M", "M+feR", "M+feP", "M+feE"],
    "fe_conflict": ["B", "B+feR", "B+feR2", "B+feP", "B+feE", "BC+feE", "M", "M+feR", "M+feP", "M+feE"],
    "fe_guard_shapes": ["B", "B+feP", "B+feE", "M", "M+feP", "M+feE"],
    "fe_guard_groups": ["B", "B+feP", "B+feE", "M", "M+feP", "M+feE"],
}


# back11 accepts a subset of the declarations (no sm-internal tables, no const events through chain rows, no
# exit-point rows with action+guard): the families it compiles -- "back11 where it accepts the same declarations"
B11_FAMS = ["ids_mixed_none", "ids_mixed_always", "ids_mixed_shallow", "conflict_flat", "nest_inactive", "queue_flat", "queue_nested", "defer_basic", "defer_action", "completion_chain",
            "blocking", "flags", "storage", "fork_entry", "history_none", "history_always", "history_shallow", "serial_nested",
            "fe_player", "fe_conflict", "exit_points_plain", "defer_queue_first", "root_history", "defer_sub", "fork_flags"]


# back with queue_container_circular (capacity 256 set by the adapter, "sufficient" for every plan)
BQ_FAMS = ["queue_flat", "queue_nested", "defer_basic", "storage", "nest2_mixed", "completion_chain", "defer_queue_first"]


def variants_of(family):
    v = list(FAMILY_VARIANTS.get(family, ALLV))
    if family in BQ_FAMS and "BQ" not in v:
        v.append("BQ")
    if family in B11_FAMS and "B11" not in v:
        v.append("B11")
    return v


def with_b11(family, variants):
    if variants is ALLV:
        return ALLV + (["B11"] if family in B11_FAMS else []) + (["BQ"] if family in BQ_FAMS else [])
    return variants


def job(family, profile, quick, thorough, variants=None, mode="lockstep", san="", shards=4, valgrind=False):
    return {"family": family, "variants": with_b11(family, variants) if variants else variants_of(family), "profile": profile, "quick": quick,
            "thorough": thorough, "san": san, "shards": shards, "mode": mode, "valgrind": valgrind}


def jobs(families, profiles, quick, thorough, variants=None, mode="lockstep"):
    return [job(f, p, quick, thorough, variants=variants, mode=mode) for f in families for p in profiles]


def rand_jobs(specprofile, profiles, quick, thorough, nquick=1, nthorough=16, mode="lockstep"):
    """jobs on seeded random specs rand_<specprofile>_<k> (gen/randspec.py): the first nquick of them also run in the quick tier"""
    import randspec
    out = []
    for k in range(nthorough):
        name = "rand_%s_%d" % (specprofile, k)
        vs = randspec.variants(randspec.rand_spec(specprofile, k))
        for p in profiles:
            out.append({"family": name, "variants": vs, "profile": p, "quick": quick if k < nquick else 0, "thorough": thorough,
                        "san": "", "shards": 2, "mode": mode, "valgrind": False})
    return out


STRUCT = ["conflict_flat", "conflict_ortho", "order_rows", "nest2_mixed", "nest3", "internal_guard_only"]
COMMON_FAMS = ["ids_mixed_none", "ids_mixed_always", "ids_mixed_shallow", "conflict_flat", "conflict_ortho", "order_rows", "nest2_mixed", "nest3", "nest3_deep", "nest_inactive", "noevent", "exit_points", "internal_guard_only",
               "history_none", "history_always", "history_shallow", "queue_flat", "queue_nested", "blocking", "flags",
               "completion_chain"]

PROPS = {
    "C01": {
        "jobs": jobs(STRUCT, ["plain"], 1500, 60000, variants=ALLV) + jobs(["nest2_mixed", "nest3", "conflict_ortho"], ["posts"], 800, 30000, variants=ALLV)
                + rand_jobs("struct", ["plain", "posts"], 600, 8000) + rand_jobs("evh", ["plain"], 0, 6000, nthorough=12),
        "nontrivial": ["multi_candidate"],
        "rule": "seeded plans (start + 4..16 events, an independent guard vector per event; half of the jobs add re-entrant posts) on the "
                "generated machines, every variant in lockstep with the reference model; a run is non-trivial when at least one dispatch "
                "consulted >= 2 guards; distinct = distinct full-trace hash per (family, variant)",
    },
    "C02": {
        "jobs": jobs(["order_rows", "nest2_mixed", "nest3", "fork_entry", "history_always", "ids_mixed_none", "ids_mixed_always"],
                     ["plain", "lifecycle"], 800, 40000, variants=ALLV)
                + rand_jobs("struct", ["lifecycle"], 600, 8000) + rand_jobs("hist", ["plain"], 0, 6000) + rand_jobs("pseudo", ["lifecycle"], 0, 6000)
                # "a rejected guard causes no state change at all" under the other switch policies, back11 included (third seeded defect C02)
                + jobs(["conflict_flat"], ["plain", "lifecycle"], 500, 20000, variants=["B11+p1", "B11+p2", "B11+p3"])
                + jobs(["history_always"], ["plain"], 400, 20000, variants=["B11+p1", "B11+p3"])
                + jobs(["order_rows", "nest2_mixed"], ["plain"], 400, 20000, variants=POLV),
        "nontrivial": ["transition"],
        "rule": "plans of events and stop/start cycles; lockstep compares every exit / action / entry record (order, event, state) and the "
                "configuration after each op; non-trivial = at least one external transition was taken; distinct = full-trace hash",
    },
    "C03": {
        "jobs": jobs(["conflict_ortho", "nest2_mixed", "nest3", "nest3_deep", "nest_inactive", "fork_entry", "exit_points", "history_always", "flags",
                      "completion_chain", "ids_mixed_none", "ids_mixed_shallow", "ids_implicit"], ["lifecycle"], 800, 40000, variants=ALLV)
                + jobs(["queue_nested", "nest2_mixed"], ["queue"], 600, 30000, variants=ALLV)
                + jobs(["nest2_mixed"], ["reentrant"], 300, 3000, variants=["B", "M"])
                # the configuration must also be intact under the other active-state-switch policies (second seeded defect C03)
                + jobs(["nest2_mixed", "conflict_ortho", "order_rows"], ["lifecycle"], 400, 20000, variants=POLV)
                # a history policy on the root machine: restart begins in the initial states (third seeded defect C03)
                + jobs(["root_history"], ["lifecycle", "queue"], 600, 20000, variants=ALLV)
                + rand_jobs("struct", ["lifecycle"], 600, 8000) + rand_jobs("pseudo", ["lifecycle"], 0, 6000) + rand_jobs("hist", ["observe"], 0, 6000),
        "nontrivial": ["stopstart"],
        "rule": "histories of start / process_event / enqueue / stop with full introspection (active ids per level, is_state_active, "
                "get_state_by_id, visitors, flags) after every op + the model-free entry/exit ledger I2; non-trivial = the history "
                "contains a stop/start cycle; distinct = full-trace hash",
    },
    "C04": {
        "jobs": jobs(["queue_flat", "queue_nested", "conflict_ortho", "completion_chain", "defer_basic", "nest2_mixed", "nest3"],
                     ["queue"], 1000, 50000, variants=ALLV)
                + jobs(["nest2_mixed", "queue_nested"], ["reentrant"], 300, 3000, variants=["B", "M"])
                # "... from exception_caught": submissions made by exception_caught need the throws profile (second seeded defect C04)
                + jobs(["queue_flat", "nest2_mixed", "order_rows"], ["throws"], 600, 30000, variants=ALLV)
                # the back / back11 option event_queue_before_deferred_queue (third seeded defect C04)
                + jobs(["defer_queue_first"], ["queue", "defer", "posts"], 600, 30000, variants=ALLV)
                + jobs(["queue_nested", "nest2_mixed"], ["long"], 40, 2000, variants=["B", "BC", "M", "MC"])
                + rand_jobs("struct", ["queue"], 600, 8000) + rand_jobs("compl", ["queue"], 0, 6000),
        "nontrivial": ["post"],
        "rule": "plans with 0-3 re-entrant submissions per op from arbitrary callback positions (guard, exit, action, entry, no_transition, "
                "initial entries during start()), to the fsm argument or to the root, through process_event / enqueue_event, mixed with "
                "external enqueue / drain-all / drain-one; non-trivial = at least one re-entrant submission fired; distinct = full-trace hash",
    },
    "C05": {
        "jobs": jobs(["defer_basic", "defer_action"], ["defer", "plain"], 1500, 60000, variants=ALLV)
                + jobs(["defer_action"], ["defer_strict"], 300, 3000, variants=["B", "BC", "M", "MA", "MC"])
                + jobs(["defer_cond"], ["defer", "plain", "queue"], 1500, 60000)
                + rand_jobs("dfb", ["defer", "queue"], 600, 8000, nthorough=12) + rand_jobs("dfm", ["defer", "queue"], 600, 8000, nthorough=12)
                + rand_jobs("sto", ["defer"], 0, 6000, nthorough=8)
                + jobs(["kleene_defer"], ["defer", "queue"], 800, 30000)
                + jobs(["defer_queue_first", "defer_sub"], ["defer", "queue"], 800, 30000, variants=ALLV)
                # long-lived machines: hundreds of ops per run (the deferred-queue sequence counter wraps; third seeded defect C05)
                + jobs(["defer_basic", "defer_queue_first", "defer_action"], ["long"], 60, 3000, variants=["B", "BC", "B11", "M", "MC"])
                + jobs(["defer_cond"], ["long"], 40, 2000, variants=["M", "MC"])
                + rand_jobs("dfb", ["long"], 0, 300, nthorough=6),
        "nontrivial": ["deferred"],
        "rule": "event sequences over machines with deferring states / Defer actions, public defer_event, posts with the defer API; "
                "non-trivial = a deferred occurrence was observed pending at a quiescent point; distinct = full-trace hash",
    },
    "C06": {
        "jobs": jobs(["conflict_ortho", "nest2_mixed", "nest3", "nest3_deep", "noevent", "exit_points"], ["plain"], 1500, 60000, variants=ALLV)
                + rand_jobs("struct", ["plain"], 600, 8000) + rand_jobs("pseudo", ["plain"], 0, 6000)
                # "offered to each region exactly once" also when several trigger types of a sub-machine match the event (second seeded defect C06)
                + jobs(["events_hier"], ["plain"], 800, 30000) + rand_jobs("evh", ["plain"], 0, 6000, nthorough=12),
        "nontrivial": ["no_transition"],
        "rule": "one external process_event at a time on a quiescent machine (no posts, no throws), independent guard vectors; lockstep "
                "compares per-region order, return code and every no_transition call; non-trivial = at least one no_transition call "
                "occurred in the run; distinct = full-trace hash",
    },
    "C07": {
        "jobs": jobs(["nest2_mixed", "nest3", "nest3_deep", "nest_inactive", "ids_mixed_none"], ["plain", "posts"], 1000, 50000, variants=ALLV)
                + rand_jobs("struct", ["plain", "posts"], 600, 8000) + rand_jobs("hist", ["posts"], 0, 6000),
        "nontrivial": ["nested"],
        "rule": "plans on machines of depth 2-3; non-trivial = a dispatch invoked behaviours of >= 2 nesting levels; distinct = full-trace hash",
    },
    "C08": {
        "jobs": jobs(["history_none", "history_always", "history_shallow", "ids_mixed_none", "ids_mixed_always", "ids_mixed_shallow", "hist_exit_pt"],
                     ["plain", "lifecycle", "posts"], 800, 40000, variants=ALLV)
                + rand_jobs("hist", ["plain", "lifecycle"], 600, 8000) + rand_jobs("pseudo", ["lifecycle"], 0, 6000)
                # "the memory is private to each submachine object": the history memory of copies (third seeded defect C08)
                + jobs(["history_shallow", "history_always", "ids_mixed_shallow"], ["fork"], 500, 20000, variants=ALLV),
        "nontrivial": ["reentry"],
        "rule": "enter / move / exit cycles of a 3-region sub-machine under the three history policies, entered normally, by direct entry "
                "and by fork; history memory probed after every op; non-trivial = the sub-machine was re-entered at least once",
    },
    "C09": {
        "jobs": jobs(["fork_entry", "exit_points", "hist_exit_pt", "exit_points_plain"], ["plain", "posts", "lifecycle"], 1000, 50000, variants=ALLV)
                + rand_jobs("pseudo", ["plain", "posts"], 600, 8000)
                # a sub-machine without message queue (back / back11 option no_message_queue), no re-entrant submissions (third seeded defect C09)
                + jobs(["entry_pt_noqueue"], ["plain", "lifecycle"], 800, 30000),
        "nontrivial": ["nested"],
        "rule": "plans on machines with direct<>, fork, entry_pt<> and exit_pt<> rows incl. the exit points' event types sent from outside; "
                "non-trivial = a dispatch crossed the sub-machine boundary",
    },
    "C10": {
        "jobs": jobs(["completion_chain"], ["plain", "posts", "queue"], 1500, 80000, variants=ALLV) + jobs(["blocking_completion", "completion_regions"], ["plain"], 1000, 40000, variants=ALLV)
                # completion transitions of states entered by explicit entry / fork (third seeded defect C10)
                + jobs(["fork_entry"], ["plain", "posts"], 800, 30000, variants=ALLV)
                + rand_jobs("compl", ["plain", "posts", "queue"], 600, 8000),
        "nontrivial": ["completion"],
        "rule": "plans on a machine with completion chains (1-4, conflicts, guards, inside a sub-machine, from the initial state) with "
                "queued and posted work pending; completion guards latched per entry; non-trivial = a completion transition fired",
    },
    "C11": {
        "jobs": jobs(["blocking", "blocking_completion"], ["plain", "posts", "queue", "lifecycle"], 1000, 50000, variants=ALLV)
                + rand_jobs("blk", ["plain", "posts", "queue"], 600, 8000, nthorough=12),
        "nontrivial": ["swallowed"],
        "rule": "plans on a 3-region machine with a terminate state and two interrupt states (one / two end events); non-trivial = an "
                "external event was swallowed (handled code, no behaviour invoked)",
    },
    "C12": {
        "jobs": jobs(["order_rows", "nest2_mixed", "conflict_ortho"], ["throws"], 600, 30000)
                + jobs(["nest3", "completion_chain", "queue_flat", "queue_nested", "defer_basic", "fork_entry", "exit_points", "history_always"],
                       ["throws"], 600, 30000, variants=ALLV)
                # events pending in the deferred queue of a sub-machine whose exit cascade throws (third seeded defect C12)
                + jobs(["defer_sub"], ["throws"], 800, 30000, variants=ALLV)
                # an exception in the entry of a completion source under every switch policy (seeded defect C12, DESIGN.md section 12)
                + jobs(["completion_chain"], ["throws"], 600, 30000, variants=POLV)
                # "the outcome does not depend on uninitialised data": the same plans under valgrind (one plan per process)
                + [job("completion_chain", "throws", 12, 300, variants=["M", "B"], valgrind=True),
                   job("nest2_mixed", "throws", 8, 200, variants=["M", "B"], valgrind=True)]
                + rand_jobs("struct", ["throws"], 0, 6000) + rand_jobs("compl", ["throws"], 0, 6000) + rand_jobs("pseudo", ["throws"], 0, 6000)
                # ... and under valgrind (one plan per process) on two random specs with completion rows (thorough tier)
                + [dict(j, valgrind=True, thorough=100, variants=[v for v in j["variants"] if v in ("B", "M")]) for j in rand_jobs("compl", ["throws"], 0, 1, nthorough=9) if j["family"] in ("rand_compl_3", "rand_compl_8")]
                # the same under ASan / UBSan on a few random specs (thorough tier)
                + [dict(j, san="_asan", thorough=1500) for j in rand_jobs("compl", ["throws"], 0, 1, nthorough=4) + rand_jobs("pseudo", ["throws"], 0, 1, nthorough=2)],
        "nontrivial": ["throw"],
        "rule": "fault injection: 1-2 exceptions per faulty op thrown from a guard / exit / action / entry position chosen among the "
                "callbacks the op actually reaches (dry run on the model), plus posts, under all four switch policies; lockstep + "
                "invariants I6 (not wedged) and I7 (nothing escapes); non-trivial = an injected exception fired",
    },
    "C13": {
        "jobs": [job(f, "common", 1500, 60000, variants=ALLV, mode="diff:backend") for f in COMMON_FAMS]
                + [job(f, "common_throws", 600, 30000, variants=ALLV, mode="diff:backend") for f in ["nest2_mixed", "order_rows", "queue_flat"]]
                + [job(f, "plain", 1000, 40000, variants=ALLV, mode="diff:backend") for f in ["fork_entry", "defer_basic"]]
                + [job("events_hier", "common", 1000, 40000, mode="diff:backend")]
                + [job(f, "common", 600, 20000, variants=ALLV, mode="diff:backend") for f in ["ids_implicit", "hist_exit_pt", "completion_regions"]]   # findings KF-3, KF-4, KF-5
                + rand_jobs("struct", ["common"], 600, 8000, mode="diff:backend") + rand_jobs("hist", ["common"], 600, 8000, mode="diff:backend")
                + rand_jobs("pseudo", ["plain"], 0, 6000, mode="diff:backend") + rand_jobs("compl", ["common"], 0, 6000, mode="diff:backend")
                + rand_jobs("blk", ["common"], 0, 6000, nthorough=12, mode="diff:backend")
                # the back-ends must also agree under each non-default active-state-switch policy, exceptions included (third seeded defect C13)
                + [job("conflict_flat", "common_throws", 500, 20000, variants=["B+p%d" % k, "B11+p%d" % k, "M+p%d" % k], mode="diff:backend") for k in (1, 2, 3)],
        "nontrivial": ["transition"],
        "rule": "the same plan (events, guard vectors, posts, enqueue/drain, stop/start, throws) executed on back+runtime, back+compile-time, "
                "backmp11 flat_fold / function_pointer_array / favor_compile_time; normalised traces (false completion-guard re-tries dropped, "
                "return code reduced to handled/zero, pending totals) compared pairwise with no model in the loop",
    },
    "C14": {
        "jobs": jobs(["fe_player", "fe_conflict"], ["plain", "queue"], 1000, 40000)
                + jobs(["internal_guard_only"], ["plain", "posts"], 1000, 40000, variants=ALLV)      # state-local / sm-internal tables, guard-only rows
                + jobs(["fe_guard_shapes", "fe_guard_groups"], ["plain"], 1500, 40000)
                + [job(f, "common", 1500, 50000, variants=["B", "B+feR", "B+feR2", "B+feP", "B+feE"], mode="diff:frontend") for f in ["fe_player", "fe_conflict"]]
                + [job(f, "common", 1500, 50000, variants=["M", "M+feR", "M+feP", "M+feE"], mode="diff:frontend") for f in ["fe_player", "fe_conflict"]]
                + [job(f, "plain", 1500, 50000, variants=["B", "B+feP", "B+feE"], mode="diff:frontend") for f in ["fe_guard_shapes", "fe_guard_groups"]]
                + [job(f, "plain", 1500, 50000, variants=["M", "M+feP", "M+feE"], mode="diff:frontend") for f in ["fe_guard_shapes", "fe_guard_groups"]],
        "tokenizer": {"quick": 20000, "thorough": 2000000},
        "nontrivial": ["multi_candidate"],
        "rule": "one flat machine written as functor rows, basic member-function rows, row2 rows (methods of the source state), as an eUML "
                "transition-table expression (guards written with the C++ operators over functor instances, action sequences with the "
                "comma operator) and as a PlantUML text with seeded formatting noise (1-4 dashes, blanks and tabs, '/ actions' before or after '[guard]', state "
                "entry/exit/flag/terminate lines sprinkled between the rows, half of the states defined by text lines), on back and backmp11; "
                "every variant in lockstep with the model and all variants of one back-end compared with each other on the same plans (guard "
                "leaf evaluation order included, so precedence and short-circuiting of !, &&, || and parentheses are observable); "
                "non-trivial = a dispatch consulted >= 2 guards.  Tokenizer clause (seeded input generation, not simulation): lines drawn from "
                "the documented grammar are fed to front::puml::detail::parse_row and the five fields compared",
    },
    "C15": {
        "jobs": jobs(["nest2_mixed", "exit_points", "history_always", "history_shallow", "ids_mixed_shallow", "ids_mixed_always", "serial_nested",
                      "defer_basic", "queue_flat", "queue_nested"], ["fork"], 800, 40000, variants=ALLV)
                + rand_jobs("hist", ["fork"], 600, 8000) + rand_jobs("pseudo", ["fork"], 0, 6000) + rand_jobs("ser", ["fork"], 0, 6000, nthorough=12),
        "nontrivial": ["fork"],
        "rule": "plans with copy-construct (from const&), copy-assign, move-construct / move-assign (backmp11), destroy, with queued and "
                "deferred events pending, then different continuations on up to 3 replicas; every behaviour record carries the replica "
                "that owns the fsm argument and the state object (address ranges): invariant I5; non-trivial = a fork op occurred",
    },
    "C16": {
        "jobs": jobs(["serial_nested"], ["crash"], 1500, 60000) + rand_jobs("ser", ["crash"], 600, 8000, nthorough=12),
        "nontrivial": ["saveload"],
        "rule": "crash-restart: save a quiescent machine with empty queues to a text or binary archive, destroy it (or keep it as a second "
                "replica), load into a fresh machine, continue; active ids, history memory and do_serialize data compared after every op",
    },
    "C17": {
        "jobs": jobs(["flags", "blocking", "nest_inactive", "nest3_deep"], ["lifecycle", "observe"], 800, 40000, variants=ALLV)
                + jobs(["flags"], ["observe"], 500, 20000, variants=["B+p3", "M+p3"])
                + rand_jobs("struct", ["observe"], 600, 6000) + rand_jobs("hist", ["observe"], 0, 6000)
                # flags inside a sub-machine whose first entry is an explicit entry, a fork or an entry point (second seeded defect C17)
                + jobs(["fork_flags"], ["observe", "lifecycle"], 800, 30000, variants=ALLV) + rand_jobs("pseudo", ["observe"], 0, 6000),
        "nontrivial": ["flag"],
        "rule": "is_flag_active<F>() and <F,AND> for every flag on every machine level after every op (and, through the observed active "
                "ids, inside behaviours); non-trivial = some flag was active at some point of the run",
    },
    "C18": {
        "jobs": jobs(["events_hier"], ["plain", "posts", "queue"], 1500, 60000)
                + rand_jobs("evh", ["plain", "posts", "queue"], 600, 8000, nthorough=12)
                + jobs(["kleene_defer"], ["plain", "posts", "queue", "defer"], 800, 30000),      # payload through the deferred queue (second seeded defect C18)
        "nontrivial": ["multi_candidate"],
        "rule": "events of a 3-level class hierarchy against exact / base / Kleene triggers competing in one state and across a sub-machine "
                "boundary, submitted directly, queued and posted; behaviours record the static type, the dynamic type found in the Kleene "
                "'any', the occurrence id and the payload checksum",
    },
    "C20": {
        "jobs": jobs(["storage"], ["storage", "queue", "fork"], 1500, 60000, variants=ALLV)
                + [job("storage", "storage", 300, 10000, variants=ALLV, san="_asan"),
                   job("storage", "throws", 200, 5000, variants=ALLV, san="_asan"),
                   job("queue_nested", "storage", 200, 5000, variants=ALLV, san="_asan"),
                   job("defer_basic", "storage", 200, 5000, variants=ALLV, san="_asan")]
                + rand_jobs("sto", ["storage", "queue", "fork"], 400, 6000, nthorough=8)
                + [dict(j, san="_asan", quick=(150 if j["quick"] else 0), thorough=2000) for j in rand_jobs("sto", ["storage"], 1, 1, nthorough=4)]
                + [dict(j, san="_asan", thorough=1500) for j in rand_jobs("dfm", ["queue", "fork"], 0, 1, nthorough=3) + rand_jobs("struct", ["queue"], 0, 1, nthorough=2)],
        "nontrivial": ["queued"],
        "rule": "histories of submit / defer / dispatch / copy / assign / move / clear / stop / destroy with events pending, over event "
                "classes of 9..520 bytes, alignment up to 64, trivially copyable / non-trivial / potentially-throwing move / self-referential; "
                "every construction and destruction of a tracked class goes through an instance registry (live == pending after every op, "
                "0 after the last machine is gone, no double destroy, no use after destroy); payload pattern and self-pointer verified at "
                "every behaviour; the same runs under AddressSanitizer + UBSan + LeakSanitizer; non-trivial = events were pending at a quiescent point",
    },
    "C19": {
        "jobs": jobs(["nest2_mixed", "order_rows", "conflict_ortho"], ["plain", "posts"], 500, 20000, variants=POLV)
                + [job(f, "common", 800, 30000, variants=["B", "B+p1", "B+p2", "B+p3"], mode="diff:policy") for f in ["nest2_mixed", "order_rows", "conflict_ortho"]]
                + [job(f, "common", 800, 30000, variants=["M", "M+p1", "M+p2", "M+p3"], mode="diff:policy") for f in ["nest2_mixed", "order_rows", "conflict_ortho"]]
                # back11 and rows leaving exit points under the policies (second seeded defect C19)
                + jobs(["exit_points_plain"], ["plain", "posts"], 500, 20000, variants=["B11+p1", "B11+p2", "B11+p3", "B+p1", "B+p3", "M+p2", "M+p3"])
                + [job("exit_points_plain", "plain", 800, 30000, variants=["B11", "B11+p1", "B11+p2", "B11+p3"], mode="diff:policy")]
                + jobs(["conflict_flat"], ["plain", "posts"], 500, 20000, variants=["B11+p1", "B11+p2", "B11+p3"])
                + [job("conflict_flat", "common", 800, 30000, variants=["B11", "B11+p1", "B11+p2", "B11+p3"], mode="diff:policy")],
        "nontrivial": ["transition"],
        "rule": "every behaviour records the active state ids its fsm argument reports at that instant; lockstep against the policy table "
                "of the model for the three non-default policies; differential: with that field blanked the four policies give identical traces",
    },
}
