"""randspec.py -- seeded random well-formed specs (the "programs" quantifier beyond the hand-written families).

rand_spec(profile, seed) draws a machine inside the bounds the properties state: 1-3 regions per machine,
nesting depth <= 3, conflicting rows per (state, event), internal rows, state-local and sm-internal tables,
guard expression trees, action sequences; per profile additionally history policies, explicit entry / fork /
entry and exit points, completion rows (acyclic by construction).  spec.normalize() validates the result.
"""
import random
import zlib

PROFILES = ("struct", "hist", "pseudo", "compl", "evh", "dfb", "dfm", "ser", "sto", "blk")


def rand_spec(profile, seed):
    assert profile in PROFILES
    rnd = random.Random(zlib.crc32(("%s/%d" % (profile, seed)).encode()))
    name = "rand_%s_%d" % (profile, seed)
    nev = rnd.randint(3, 5)
    events = ["E%d" % i for i in range(nev)]
    if profile == "evh":
        # an event class hierarchy of 1-2 levels below E0 (and sometimes one below E1); triggers: exact, base, Kleene
        events = ["E0", "E1", "E2", "E3:E0", "E4:E3"] if rnd.random() < 0.6 else ["E0", "E1", "E2", "E3:E0", "E4:E1"]
        nev = 5
    trig = [e.split(":")[0] for e in events]
    leaf = [0]
    act = [0]
    st = [0]

    def new_leaf():
        leaf[0] += 1
        return "g%d" % (leaf[0] - 1)

    def new_act():
        act[0] += 1
        return "a%d" % (act[0] - 1)

    def guard(pool):
        """expression over 1-3 leaves drawn from a small pool (so that leaves are shared between rows)"""
        r = rnd.random()
        if r < 0.45:
            return ""
        def lf():
            if pool and rnd.random() < 0.5:
                return rnd.choice(pool)
            g = new_leaf()
            pool.append(g)
            return g
        k = rnd.random()
        if k < 0.45:
            e = ("!" if rnd.random() < 0.3 else "") + lf()
        elif k < 0.7:
            e = "%s %s %s" % (lf(), rnd.choice(["&&", "||"]), ("!" if rnd.random() < 0.3 else "") + lf())
        elif k < 0.85:
            e = "%s && (%s || %s)" % (lf(), lf(), lf())
        else:
            e = "!(%s || %s) || %s" % (lf(), lf(), lf())
        return " [%s]" % e

    def actions():
        k = rnd.random()
        if k < 0.25:
            return ""
        n = 1 if k < 0.8 else rnd.randint(2, 3)
        return " / " + ",".join(new_act() for _ in range(n))

    def internal_row(pool):
        """a row of a state-local or sm-internal table; one in five is guard-only (no action)"""
        ev = rnd.choice(trig[:nev])
        g = guard(pool)
        if g and rnd.random() < 0.2:
            return "%s%s" % (ev, g)
        return "%s%s / %s" % (ev, g, new_act())

    machines = []
    # machine tree: root, optionally one sub-machine per level (depth <= 3), sometimes two siblings at level 2
    shape = rnd.choice([[0], [0, 1], [0, 1], [0, 1, 2], [0, 1, 1]])     # nesting level of each machine
    parents = []
    for i, lvl in enumerate(shape):
        if lvl == 0:
            parents.append(-1)
        else:
            cands = [k for k in range(i) if shape[k] == lvl - 1]
            parents.append(rnd.choice(cands))
    children = {i: [k for k in range(len(shape)) if parents[k] == i] for i in range(len(shape))}

    def sname():
        st[0] += 1
        return "S%d" % (st[0] - 1)

    for mi in range(len(shape)):
        nreg = rnd.choice([1, 1, 2, 2, 3]) if shape[mi] < 2 else rnd.choice([1, 1, 2])
        if profile == "blk" and mi == 0:
            nreg = rnd.choice([2, 3])       # terminate and interrupt states in different regions of the root
        if profile in ("dfb", "sto") and mi == 0:
            nreg = 1            # back: no sibling region may handle what a state defers (documented limitation)
        regions = [[sname() for _ in range(rnd.randint(2, 4))] for _ in range(nreg)]
        M = {"name": "M%d" % mi, "regions": regions, "kinds": {}, "rows": [], "state": {}}
        machines.append(M)
    # sub-machine states: one state of the parent (not necessarily initial) refers to each child
    for mi in range(len(shape)):
        for ch in children[mi]:
            M = machines[mi]
            cands = [s for reg in M["regions"] for s in reg if s not in M["kinds"]]
            s = rnd.choice(cands)
            M["kinds"][s] = "sub:M%d" % ch
    blk_end = {}
    if profile == "blk":
        # C11 / C13 quantifier: blocking states in the machine that receives the events (the root), 1-2 end-interrupt events
        M0 = machines[0]
        regs = list(range(len(M0["regions"])))
        rnd.shuffle(regs)
        for which, ri in zip(("terminate", "interrupt"), regs):
            cand = [s_ for s_ in M0["regions"][ri][1:] if s_ not in M0["kinds"]]
            if not cand:
                continue
            s_ = rnd.choice(cand)
            if which == "terminate":
                M0["kinds"][s_] = "terminate"
            else:
                ends = rnd.sample(trig[:nev], rnd.randint(1, 2))
                M0["kinds"][s_] = "interrupt:" + ",".join(ends)
                blk_end[s_] = ends
    pools = [[] for _ in machines]      # guard leaves are shared between rows of one machine, never across machines: a
                                        # plan addresses "the n-th evaluation of leaf g in this op", which must not depend
                                        # on how many levels a back-end consults
    for mi, M in enumerate(machines):
        explicit = {}
        entry_pts = {}
        exit_pts = {}
        if profile == "pseudo" and shape[mi] > 0:
            # explicit-entry states: one per region (at most), entry point in region 0, exit point in the last region
            for ri, reg in enumerate(M["regions"]):
                cand = [s for s in reg[1:] if s not in M["kinds"]]
                if cand and rnd.random() < 0.8:
                    s = rnd.choice(cand)
                    M["kinds"][s] = "explicit"
                    explicit[ri] = s
            ep = sname()
            M["regions"][0].append(ep)
            M["kinds"][ep] = "entry_pt"
            entry_pts[0] = (ep, rnd.choice(trig[:nev]))     # the event that enters through it is the one its row reacts to
            xp = sname()
            M["regions"][-1].append(xp)
            xev = "X%d" % mi
            events.append({"name": xev, "exit": True})
            M["kinds"][xp] = "exit_pt:" + xev
            exit_pts[len(M["regions"]) - 1] = (xp, xev)
        M["_explicit"], M["_entry_pts"], M["_exit_pts"] = explicit, entry_pts, exit_pts
        if profile in ("hist", "pseudo", "ser") and shape[mi] > 0:
            M["history"] = rnd.choice(["none", "always", "shallow:" + ",".join(rnd.sample(trig[:nev], rnd.randint(1, 2)))])
    for mi, M in enumerate(machines):
        pool = pools[mi]
        nrows = rnd.randint(6, 12)
        for ri, reg in enumerate(M["regions"]):
            normal = [s for s in reg if M["kinds"].get(s, "") not in ("entry_pt",) and not M["kinds"].get(s, "").startswith("exit_pt")]
            for _ in range(max(2, nrows // len(M["regions"]))):
                src = rnd.choice(normal)
                ev = rnd.choice(trig[:nev])
                if profile == "evh" and rnd.random() < 0.12:
                    ev = "*"
                if rnd.random() < 0.22:
                    M["rows"].append("%s + %s%s%s" % (src, ev, guard(pool), actions() or " / " + new_act()))
                else:
                    tgt = rnd.choice(normal + ([M["_exit_pts"][ri][0]] if ri in M["_exit_pts"] and rnd.random() < 0.4 else []))
                    M["rows"].append("%s + %s%s%s -> %s" % (src, ev, guard(pool), actions(), tgt))
            for s_, ends in (blk_end.items() if mi == 0 else []):
                if s_ in reg:
                    for e_ in ends:
                        M["rows"].append("%s + %s%s%s -> %s" % (s_, e_, guard(pool), actions(), rnd.choice([x for x in normal if x != s_] or normal)))
            # every pseudo state takes part in the table of its machine (documented usage)
            if ri in M["_exit_pts"] and not any(r.endswith("-> " + M["_exit_pts"][ri][0]) for r in M["rows"]):
                M["rows"].append("%s + %s%s%s -> %s" % (rnd.choice(normal), rnd.choice(trig[:nev]), guard(pool), actions(), M["_exit_pts"][ri][0]))
            if ri in M["_explicit"] and not any(r.startswith(M["_explicit"][ri] + " ") for r in M["rows"]):
                M["rows"].append("%s + %s%s -> %s" % (M["_explicit"][ri], rnd.choice(trig[:nev]), actions(), rnd.choice(normal)))
            if ri in M["_entry_pts"]:
                ep, epev = M["_entry_pts"][ri]
                M["rows"].append("%s + %s%s%s -> %s" % (ep, epev, guard(pool), actions(), rnd.choice(normal)))
        # rows of the parent that use the pseudo states of this machine
        if shape[mi] > 0:
            P = machines[parents[mi]]
            ppool = pools[parents[mi]]
            substate = [s for s, k in P["kinds"].items() if k == "sub:" + M["name"]][0]
            preg = [r for r in P["regions"] if substate in r][0]
            others = [s for s in preg if s != substate and not P["kinds"].get(s, "").startswith("exit_pt") and P["kinds"].get(s, "") != "entry_pt"]
            if others:
                if M["_explicit"]:
                    regs = sorted(M["_explicit"])
                    P["rows"].append("%s + %s%s%s -> %s.%s" % (rnd.choice(others), rnd.choice(trig[:nev]), guard(ppool), actions(), substate, M["_explicit"][regs[0]]))
                    if len(regs) > 1:
                        tg = "|".join("%s.%s" % (substate, M["_explicit"][r]) for r in regs)
                        P["rows"].append("%s + %s%s%s -> %s" % (rnd.choice(others), rnd.choice(trig[:nev]), guard(ppool), actions(), tg))
                for ri, (ep, epev) in M["_entry_pts"].items():
                    P["rows"].append("%s + %s%s%s -> %s.%s" % (rnd.choice(others), epev, guard(ppool), actions(), substate, ep))
                for ri, (xp, xev) in M["_exit_pts"].items():
                    P["rows"].append("%s.%s + %s%s -> %s" % (substate, xp, xev, actions(), rnd.choice(others)))
                # make sure the sub-machine can be entered and left
                P["rows"].append("%s + %s%s -> %s" % (rnd.choice(others), rnd.choice(trig[:nev]), actions(), substate))
                P["rows"].append("%s + %s%s%s -> %s" % (substate, rnd.choice(trig[:nev]), guard(ppool), actions(), rnd.choice(others)))
        # sm-internal and state-local internal tables
        if rnd.random() < 0.5:
            M["internal"] = [internal_row(pool) for _ in range(rnd.randint(1, 2))]
        for reg in M["regions"]:
            for s in reg:
                if s not in M["kinds"] and rnd.random() < 0.2:
                    M["state"].setdefault(s, {})["internal"] = [internal_row(pool)]
        if profile == "compl":
            # completion rows only "forward" in the region's state order: chains terminate
            # the guard leaves of a completion row belong to its source state (the value is latched on entry of that state)
            for reg in M["regions"]:
                simple = [s for s in reg if s not in M["kinds"]]
                for i, s in enumerate(simple[:-1]):
                    if rnd.random() < 0.6:
                        cpool = []
                        for _ in range(rnd.choice([1, 1, 2])):        # sometimes two conflicting completion rows
                            tgt = rnd.choice(simple[i + 1:])
                            g = ""
                            if rnd.random() < 0.7:
                                cg = new_leaf() if (not cpool or rnd.random() < 0.6) else rnd.choice(cpool)
                                if cg not in cpool:
                                    cpool.append(cg)
                                g = " [%s]" % cg        # a single positive leaf: its latched value is the guard's value
                            M["rows"].append("%s%s%s -> %s" % (s, g, actions(), tgt))
        rnd.shuffle(M["rows"])
    # deferral as a state property
    if profile in ("dfb", "dfm", "sto"):
        dset = rnd.sample(trig[:nev], rnd.randint(1, 2))
        cond = [0]
        for mi, M in enumerate(machines):
            if profile in ("dfb", "sto") and mi != 0:
                continue        # back: deferral declared in the machine that receives the event
            simple = [s_ for reg in M["regions"] for s_ in reg if not M["kinds"].get(s_)]
            subs = [s_ for reg in M["regions"] for s_ in reg if M["kinds"].get(s_, "").startswith("sub:")]
            cands = simple + (subs if profile == "dfm" else [])
            for s_ in cands:
                if rnd.random() < (0.45 if mi == 0 else 0.25):
                    evs = [e for e in dset if rnd.random() < 0.7] or [dset[0]]
                    M["state"].setdefault(s_, {})["deferred"] = evs
                    if profile == "dfm" and rnd.random() < 0.35 and cond[0] < 4:
                        M["state"][s_]["cond_defer"] = cond[0]
                        cond[0] += 1
                    if profile in ("dfb", "sto"):
                        # ... and not contradicted by a transition on the same event in the same state
                        M["rows"] = [r for r in M["rows"] if not any(r.startswith("%s + %s " % (s_, e)) or r == "%s + %s" % (s_, e) for e in evs)]
                        if s_ in M["state"] and "internal" in M["state"][s_]:
                            M["state"][s_]["internal"] = [r for r in M["state"][s_]["internal"] if r.split()[0] not in evs]
                            if not M["state"][s_]["internal"]:
                                del M["state"][s_]["internal"]
            if profile in ("dfb", "sto") and M.get("internal"):
                M["internal"] = [r for r in M["internal"] if r.split()[0] not in dset]
                if not M["internal"]:
                    del M["internal"]
    # user flags (pure observation): on simple states and on sub-machine states, at every level
    if rnd.random() < 0.6:
        for M in machines:
            for reg in M["regions"]:
                for s_ in reg:
                    k = M["kinds"].get(s_, "")
                    if k and not k.startswith("sub:") and k != "explicit":
                        continue
                    fl = [f for f in ("F0", "F1", "F2") if rnd.random() < 0.25]
                    if fl:
                        M["state"].setdefault(s_, {})["flags"] = fl
    if profile == "ser":
        # Boost.Serialization (back / back11): some simple states carry serialisable data
        for M in machines:
            for reg in M["regions"]:
                for s_ in reg:
                    k = M["kinds"].get(s_, "")
                    if (not k or k.startswith("sub:")) and rnd.random() < 0.3:      # simple states and sub-machine front-ends
                        M["state"].setdefault(s_, {})["data"] = True
    for M in machines:
        for k in ("_explicit", "_entry_pts", "_exit_pts"):
            M.pop(k, None)
        if not M["state"]:
            M.pop("state")
        if not M["kinds"]:
            M.pop("kinds")
    if profile == "sto":
        # stored-event classes (size / alignment / copy-move traits, instance-counted): the deferred ones first
        big = list(dict.fromkeys(dset + rnd.sample(trig[:nev], 2)))
        events = [({"name": e, "size_class": rnd.randint(1, 7)} if e in big else e) for e in events]
    # front-end options of back / back11 and a history policy on the root, drawn last so that the rest of a spec does not depend on them
    if profile in ("dfb", "sto") and rnd.random() < 0.35:
        machines[0]["queue_first"] = True          # event_queue_before_deferred_queue
    if profile in ("hist", "ser") and rnd.random() < 0.3:
        machines[0]["history"] = rnd.choice(["always", "shallow:" + trig[0]])
    sp = {"name": name, "events": events, "machines": machines}
    if profile == "ser":
        sp["serialize"] = True
    return sp


def variants(spec):
    """configurations a random spec is built for (back11 cannot compile sm-internal tables; back with favor_compile_time
    cannot compile a machine that has both completion rows and an sm-internal table: compile-time limits, not properties)"""
    v = ["B", "BC", "M", "MA", "MC"]
    if spec.get("serialize"):       # Boost.Serialization is offered by back / back11 only
        return ["B", "BC"] + (["B11"] if not any(M.get("internal") for M in spec["machines"]) else [])
    if any(":" in e for e in spec["events"] if isinstance(e, str)):
        return ["B", "M"]       # base-class and Kleene triggers: run-time-speed policies with flat_fold dispatch (C18 quantifier)
    if any("cond_defer" in st for M in spec["machines"] for st in M.get("state", {}).values()) or spec["name"].startswith("rand_dfm"):
        return ["M", "MA", "MC"]    # deferral at any level / conditional deferral: backmp11
    # back11 does not compile sm-internal tables (compile-time limit); everything else it shares with back
    if not any(M.get("internal") for M in spec["machines"]) and not any(isinstance(e, dict) for e in spec["events"]):
        v.append("B11")
    # back + favor_compile_time forwards every event type, the completion event included, to every sub-machine and cannot
    # instantiate the completion dispatch table of a machine that has an sm-internal table (compile-time limit)
    any_compl = any(" + " not in r.split("->")[0].split("[")[0].split("/")[0] for M in spec["machines"] for r in M["rows"])
    if any_compl and any(M.get("internal") for M in spec["machines"]):
        v.remove("BC")
    return v


def parse_name(name):
    """rand_<profile>_<seed> -> (profile, seed)"""
    _, profile, seed = name.split("_")
    return profile, int(seed)
