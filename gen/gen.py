#!/usr/bin/env python3
"""gen.py <family|spec.json> <outdir> <variant>...  -> writes <outdir>/<variant>.cpp and <outdir>/desc.cpp"""
import json
import os
import sys
sys.path.insert(0, os.path.dirname(os.path.abspath(__file__)))
import spec as specmod
import emit
import families


def load_spec(arg):
    if arg.endswith(".json"):
        return json.load(open(arg))
    return families.ALL[arg]()


def write_if_changed(path, txt):
    if os.path.exists(path) and open(path).read() == txt:
        return False
    with open(path, "w") as f:
        f.write(txt)
    return True


def main():
    sp = load_spec(sys.argv[1])
    out = sys.argv[2]
    os.makedirs(out, exist_ok=True)
    n = specmod.normalize(sp)
    write_if_changed(os.path.join(out, "desc.cpp"), emit.emit_desc(n))
    for v in sys.argv[3:]:
        write_if_changed(os.path.join(out, v.replace("+", "_") + ".cpp"), emit.emit_variant(n, v))
    write_if_changed(os.path.join(out, "spec.json"), specmod.to_json(sp))


if __name__ == "__main__":
    main()
