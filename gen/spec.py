"""Spec: declarative description of one hierarchical msm machine.

A spec is a plain dict (JSON-able) so that it can be stored verbatim in replay files:

{ "name": "nest2_mixed",
  "events": ["E0", "E1", "E4:E0", {"name":"X6","exit":true}],     # "D:B" = D publicly derives from B
  "machines": [                                                   # [0] = root; parents before children
     {"name":"Top", "regions":[["A","S","B"],["C","D"]],          # first state of a region is initial
      "kinds": {"S":"sub:Sub", "T":"terminate", "I":"interrupt:E1,E2", "EP":"entry_pt", "XP":"exit_pt:X6",
                "K":"explicit"},
      "rows": ["A + E0 [g0 && !g1] / a0,a1 -> S", "S + E1 -> B", "B + E2 / a2", "B [g3] -> A",
               "A + * / a3 -> B", "A + E3 -> S.K", "A + E3 -> S.K|S.L", "A + E3 -> S.EP", "S.XP + X6 -> B"],
      "internal": ["E3 [g4] / a5"],                               # sm-internal table (front::Internal)
      "state": {"A": {"flags":["F0"], "deferred":["E2"], "internal":["E1 / a7"], "cond_defer":0, "data":true}},
      "history": "none" | "always" | "shallow:E1,E2",
      "switch": 0..3, "activate_deferred": bool } ] }

normalize(spec) resolves names to indices and computes everything the emitters and the model need,
including the documented state-id numbering (the C03 id clause) -- independently of the library.
"""
import json
import re

SK = {"simple": 0, "sub": 1, "terminate": 2, "interrupt": 3, "entry_pt": 4, "exit_pt": 5}
TK_NONE, TK_STATE, TK_DIRECT, TK_FORK, TK_ENTRY_PT = 0, 1, 2, 3, 4
TRIG_COMPLETION, TRIG_KLEENE = -1, -2


class SpecError(Exception):
    pass


# --------------------------------------------------------------------------- guard expressions
def parse_guard(text):
    """C++ precedence: ! > && > || ; parentheses.  Returns nested tuples
    ('leaf', n) | ('not', x) | ('and', a, b) | ('or', a, b)."""
    toks = re.findall(r"\|\||&&|!|\(|\)|[A-Za-z_][A-Za-z_0-9]*", text)
    if "".join(toks) != re.sub(r"\s+", "", text):
        raise SpecError("bad guard expression: %r" % text)
    pos = [0]

    def peek():
        return toks[pos[0]] if pos[0] < len(toks) else None

    def eat(t=None):
        x = peek()
        if t is not None and x != t:
            raise SpecError("guard: expected %s in %r" % (t, text))
        pos[0] += 1
        return x

    def p_or():
        a = p_and()
        while peek() == "||":
            eat()
            a = ("or", a, p_and())
        return a

    def p_and():
        a = p_not()
        while peek() == "&&":
            eat()
            a = ("and", a, p_not())
        return a

    def p_not():
        if peek() == "!":
            eat()
            return ("not", p_not())
        if peek() == "(":
            eat()
            a = p_or()
            eat(")")
            return a
        name = eat()
        m = re.fullmatch(r"g(\d+)", name or "")
        if not m:
            raise SpecError("guard leaf must be g<N>: %r in %r" % (name, text))
        return ("leaf", int(m.group(1)))

    e = p_or()
    if peek() is not None:
        raise SpecError("trailing tokens in guard %r" % text)
    return e


def guard_leaves(e):
    if e is None:
        return []
    if e[0] == "leaf":
        return [e[1]]
    out = []
    for x in e[1:]:
        out += guard_leaves(x)
    return out


def guard_to_text(e, paren=False):
    if e[0] == "leaf":
        return "g%d" % e[1]
    if e[0] == "not":
        return "!" + guard_to_text(e[1], True)
    op = " && " if e[0] == "and" else " || "
    s = guard_to_text(e[1], True) + op + guard_to_text(e[2], True)
    return "(" + s + ")" if paren else s


# --------------------------------------------------------------------------- row strings
ROW_RE = re.compile(
    r"^\s*(?P<src>[A-Za-z_][\w.]*)?\s*"
    r"(?:\+\s*(?P<ev>\*|[A-Za-z_]\w*))?\s*"
    r"(?:\[(?P<guard>[^\]]*)\])?\s*"
    r"(?:/\s*(?P<acts>[\w\s,]+?))?\s*"
    r"(?:->\s*(?P<tgt>[\w.|]+))?\s*$")


def parse_row(text, internal_table=False):
    m = ROW_RE.match(text)
    if not m:
        raise SpecError("bad row: %r" % text)
    d = m.groupdict()
    if internal_table:
        # "E3 [g] / a" : the first identifier is the event
        if d["ev"] is None and d["src"] is not None:
            d["ev"], d["src"] = d["src"], None
    acts = []
    if d["acts"]:
        for a in d["acts"].split(","):
            a = a.strip()
            if a == "Defer":
                acts.append(-1)
            else:
                mm = re.fullmatch(r"a(\d+)", a)
                if not mm:
                    raise SpecError("action must be a<N> or Defer: %r" % text)
                acts.append(int(mm.group(1)))
    return {
        "src": d["src"], "ev": d["ev"], "guard": parse_guard(d["guard"]) if d["guard"] and d["guard"].strip() else None,
        "guard_text": d["guard"].strip() if d["guard"] and d["guard"].strip() else None,
        "acts": acts, "tgt": d["tgt"], "text": text.strip(),
    }


# --------------------------------------------------------------------------- normalisation
class N(object):
    """normalised spec (attribute bag)"""
    pass


def normalize(spec):
    n = N()
    n.spec = spec
    n.name = spec["name"]
    # events
    n.events = []
    evidx = {}
    for e in spec["events"]:
        if isinstance(e, str):
            e = {"name": e}
        name = e["name"]
        base = None
        if ":" in name:
            name, base = name.split(":")
        ev = {"name": name, "base": base, "exit": bool(e.get("exit", False)),
              "postable": e.get("postable", True), "external": e.get("external", True),
              "size_class": e.get("size_class", 0)}
        evidx[name] = len(n.events)
        n.events.append(ev)
    for ev in n.events:
        ev["base_idx"] = evidx[ev["base"]] if ev["base"] else -1
    n.evidx = evidx

    # machines and states
    n.machines = []
    n.states = []
    midx = {}
    sidx = {}
    for mi, m in enumerate(spec["machines"]):
        midx[m["name"]] = mi
    for mi, m in enumerate(spec["machines"]):
        M = {"name": m["name"], "index": mi, "parent": -1, "parent_state": -1, "regions": [], "states": [],
             "rows": [], "irows": [], "history": 0, "shallow_events": [],
             "switch": int(m.get("switch", 0)), "activate_deferred": bool(m.get("activate_deferred", False)), "queue_first": bool(m.get("queue_first", False)), "no_queue": bool(m.get("no_queue", False)),
             "queue": True, "raw": m}
        h = m.get("history", "none")
        if h == "always":
            M["history"] = 1
        elif h.startswith("shallow"):
            M["history"] = 2
            M["shallow_events"] = [evidx[x] for x in h.split(":")[1].split(",") if x]
        elif h != "none":
            raise SpecError("bad history %r" % h)
        kinds = m.get("kinds", {})
        sprops = m.get("state", {})
        for ri, reg in enumerate(m["regions"]):
            R = []
            for sname in reg:
                if sname in sidx:
                    raise SpecError("state name used twice: %s" % sname)
                k = kinds.get(sname, "simple")
                arg = None
                if ":" in k:
                    k, arg = k.split(":", 1)
                explicit = False
                if k == "explicit":
                    k, explicit = "simple", True
                p = sprops.get(sname, {})
                S = {"name": sname, "index": len(n.states), "machine": mi, "region": ri, "kind": SK[k], "sub": -1,
                     "explicit": explicit, "flags": list(p.get("flags", [])),
                     "deferred": [evidx[x] for x in p.get("deferred", [])],
                     "cond_defer": p.get("cond_defer", -1), "end_events": [], "exit_event": -1,
                     "irows_raw": list(p.get("internal", [])), "irows": [], "has_data": bool(p.get("data", False)), "smptr": bool(p.get("smptr", False)),
                     "lib_id": -1}
                if k == "sub":
                    S["sub"] = midx[arg]
                elif k == "interrupt":
                    S["end_events"] = [evidx[x] for x in arg.split(",")]
                elif k == "exit_pt":
                    S["exit_event"] = evidx[arg]
                sidx[sname] = S["index"]
                n.states.append(S)
                R.append(S["index"])
            M["regions"].append(R)
        n.machines.append(M)
    n.sidx = sidx
    for S in n.states:
        if S["kind"] == SK["sub"]:
            sub = n.machines[S["sub"]]
            if sub["parent"] != -1:
                raise SpecError("sub-machine %s used twice" % sub["name"])
            sub["parent"] = S["machine"]
            sub["parent_state"] = S["index"]
    for M in n.machines[1:]:
        if M["parent"] == -1:
            raise SpecError("machine %s is not used" % M["name"])
        if M["parent"] >= M["index"]:
            raise SpecError("parents must precede children")
    # depth
    for M in n.machines:
        d, p = 1, M["parent"]
        while p != -1:
            d += 1
            p = n.machines[p]["parent"]
        M["depth"] = d

    # flags
    flags = []
    for S in n.states:
        for f in S["flags"]:
            if f not in flags:
                flags.append(f)
    flags.sort()
    n.flags = flags
    for S in n.states:
        S["flag_ids"] = [flags.index(f) for f in S["flags"]]

    # rows
    n.rows = []
    leaves = set()
    actions = set()

    def resolve_state(name, mi):
        """-> (state index, owner-state index in machine mi)"""
        if "." in name:
            subname, inner = name.split(".", 1)
            owner = sidx[subname]
            if n.states[owner]["machine"] != mi or n.states[owner]["kind"] != SK["sub"]:
                raise SpecError("%s: %s is not a sub-machine state of machine %d" % (name, subname, mi))
            st = sidx[inner]
            if n.states[st]["machine"] != n.states[owner]["sub"]:
                raise SpecError("%s: %s is not a state of %s" % (name, inner, subname))
            return st, owner
        st = sidx[name]
        if n.states[st]["machine"] != mi:
            raise SpecError("state %s does not belong to machine %d" % (name, mi))
        return st, st

    def add_row(mi, table, raw, state_local=None):
        r = parse_row(raw, internal_table=(table != 0))
        R = {"machine": mi, "table": table, "text": r["text"], "guard": r["guard"], "guard_text": r["guard_text"], "actions": r["acts"],
             "src": -1, "src_owner": -1, "tkind": TK_NONE, "tgts": [], "tgt_owner": -1, "index": -1}
        if r["ev"] is None:
            R["trigger"] = TRIG_COMPLETION
        elif r["ev"] == "*":
            R["trigger"] = TRIG_KLEENE
        else:
            R["trigger"] = evidx[r["ev"]]
        if table == 0:
            R["src"], R["src_owner"] = resolve_state(r["src"], mi)
            if r["tgt"]:
                parts = r["tgt"].split("|")
                res = [resolve_state(p, mi) for p in parts]
                R["tgts"] = [x[0] for x in res]
                R["tgt_owner"] = res[0][1]
                if any(x[1] != R["tgt_owner"] for x in res):
                    raise SpecError("fork targets must share one sub-machine: %s" % raw)
                t0 = n.states[R["tgts"][0]]
                if len(parts) > 1:
                    R["tkind"] = TK_FORK
                elif "." in parts[0]:
                    R["tkind"] = TK_ENTRY_PT if t0["kind"] == SK["entry_pt"] else TK_DIRECT
                else:
                    R["tkind"] = TK_STATE
            else:
                R["tgt_owner"] = R["src_owner"]
        elif table == 1:
            if r["tgt"] or r["src"]:
                raise SpecError("sm-internal rows have no source/target: %s" % raw)
        else:
            R["src"] = R["src_owner"] = state_local
            R["tgt_owner"] = state_local
        for l in guard_leaves(R["guard"]):
            leaves.add(l)
        for a in R["actions"]:
            if a >= 0:
                actions.add(a)
        R["id"] = len(n.rows)
        n.rows.append(R)
        return R

    for M in n.machines:
        mi = M["index"]
        for i, raw in enumerate(M["raw"].get("rows", [])):
            R = add_row(mi, 0, raw)
            R["index"] = i
            M["rows"].append(R["id"])
        for i, raw in enumerate(M["raw"].get("internal", [])):
            R = add_row(mi, 1, raw)
            R["index"] = i
            M["irows"].append(R["id"])
    for S in n.states:
        for i, raw in enumerate(S["irows_raw"]):
            R = add_row(S["machine"], 2, raw, state_local=S["index"])
            R["index"] = i
            S["irows"].append(R["id"])

    n.nleaves = (max(leaves) + 1) if leaves else 0
    n.nactions = (max(actions) + 1) if actions else 0
    comp = set()
    noncomp = set()
    for R in n.rows:
        (comp if R["trigger"] == TRIG_COMPLETION else noncomp).update(guard_leaves(R["guard"]))
    if comp & noncomp:
        raise SpecError("guard leaves shared between completion and event rows: %s" % sorted(comp & noncomp))
    n.leaf_is_completion = [1 if l in comp else 0 for l in range(n.nleaves)]

    # documented state-id numbering per machine
    for M in n.machines:
        order = []

        def push(s):
            if s not in order:
                order.append(s)
        for rid in M["rows"]:
            push(n.rows[rid]["src_owner"])
        for rid in M["rows"]:
            push(n.rows[rid]["tgt_owner"])
        for reg in M["regions"]:
            push(reg[0])
        rest = [s for reg in M["regions"] for s in reg if s not in order]
        M["explicit_creation"] = list(rest)
        for s in rest:
            push(s)
        # inner states that only occur as sub-machine-qualified names live in the sub-machine
        for i, s in enumerate(order):
            if n.states[s]["machine"] != M["index"]:
                raise SpecError("internal: foreign state in id order")
            n.states[s]["lib_id"] = i
        M["states"] = order
        # back / back11 (internals.adoc): implicitly created states -- initial states without a row, explicit_creation --
        # "are added as a source at the end of the transition table", i.e. they are numbered before the states that
        # occur in the Next column only.  backmp11 numbers them after all targets.  (DESIGN.md, finding KF-3)
        in_table = set()
        srcs = []
        for rid in M["rows"]:
            in_table.add(n.rows[rid]["src_owner"]); in_table.add(n.rows[rid]["tgt_owner"])
            if n.rows[rid]["src_owner"] not in srcs:
                srcs.append(n.rows[rid]["src_owner"])
        oback = list(srcs)
        for reg in M["regions"]:
            if reg[0] not in in_table and reg[0] not in oback:
                oback.append(reg[0])
        for s in rest:
            if s not in oback:
                oback.append(s)
        for rid in M["rows"]:
            if n.rows[rid]["tgt_owner"] not in oback:
                oback.append(n.rows[rid]["tgt_owner"])
        assert sorted(oback) == sorted(order), (oback, order)
        for i, s in enumerate(oback):
            n.states[s]["lib_id_back"] = i
        M["states_back"] = oback
        M["has_deferred"] = M["activate_deferred"] or any(n.states[s]["deferred"] for s in order)
        M["has_completion"] = any(n.rows[r]["trigger"] == TRIG_COMPLETION for r in M["rows"])
        M["has_blocking"] = any(n.states[s]["kind"] in (SK["terminate"], SK["interrupt"]) for s in order)
        M["uses_defer_action"] = any(-1 in n.rows[r]["actions"] for r in
                                     M["rows"] + M["irows"] + [x for s in order for x in n.states[s]["irows"]])
    n.ids_differ = any(M["states"] != M["states_back"] for M in n.machines)
    validate(n)
    return n


def validate(n):
    for M in n.machines:
        if not (1 <= len(M["regions"]) <= 3):
            raise SpecError("1-3 regions per machine")
        if M["depth"] > 3:
            raise SpecError("nesting depth <= 3")
        for reg in M["regions"]:
            if n.states[reg[0]]["kind"] in (SK["entry_pt"], SK["exit_pt"]):
                raise SpecError("initial state must not be a pseudo state")
        if M["uses_defer_action"] and not M["activate_deferred"]:
            raise SpecError("%s: Defer action needs activate_deferred" % M["name"])
    for R in n.rows:
        M = n.machines[R["machine"]]
        if R["table"] == 0:
            so = n.states[R["src_owner"]]
            src = n.states[R["src"]]
            if R["src"] != R["src_owner"] and src["kind"] != SK["exit_pt"]:
                raise SpecError("only exit points may be qualified sources: %s" % R["text"])
            if R["src"] == R["src_owner"] and src["kind"] == SK["exit_pt"]:
                raise SpecError("exit point used as inner source: %s" % R["text"])
            if R["tkind"] != TK_NONE:
                to = n.states[R["tgt_owner"]]
                if to["region"] != so["region"]:
                    raise SpecError("transition crosses regions: %s" % R["text"])
                if R["tkind"] == TK_STATE and n.states[R["tgts"][0]]["kind"] == SK["entry_pt"]:
                    raise SpecError("entry point as inner target: %s" % R["text"])
                if R["tkind"] in (TK_DIRECT, TK_FORK):
                    regs = []
                    for t in R["tgts"]:
                        T = n.states[t]
                        if not T["explicit"]:
                            raise SpecError("direct/fork target must be an explicit-entry state: %s" % R["text"])
                        regs.append(T["region"])
                    if regs != sorted(set(regs)):
                        raise SpecError("fork targets must be listed in region order, one per region: %s" % R["text"])
            if R["trigger"] == TRIG_COMPLETION:
                if src["kind"] != SK["simple"] or R["src"] != R["src_owner"]:
                    raise SpecError("completion rows need a simple source state: %s" % R["text"])
            if src["kind"] == SK["exit_pt"] and R["trigger"] != src["exit_event"]:
                raise SpecError("row leaving an exit point must be triggered by its event: %s" % R["text"])


def to_json(spec):
    return json.dumps(spec, sort_keys=True, separators=(",", ":"))
