"""emit.py -- turn a normalised spec into C++:
   * one translation unit per variant containing the real msm machine (functor front-end by default)
     plus the IMachine adapter around it,
   * one translation unit with the static Desc tables the reference model interprets.
"""
import re
import json
from spec import SK, TK_NONE, TK_STATE, TK_DIRECT, TK_FORK, TK_ENTRY_PT, TRIG_COMPLETION, TRIG_KLEENE, to_json

# ------------------------------------------------------------------------------------------ variants
# backend: back | back11 | mp11 ; policy: rt | ct ; dispatch: fold | array ; queue: deque | circ
VARIANTS = {
    "B":    dict(backend="back",   policy="rt", dispatch="fold",  queue="deque"),
    "BC":   dict(backend="back",   policy="ct", dispatch="fold",  queue="deque"),
    "BQ":   dict(backend="back",   policy="rt", dispatch="fold",  queue="circ"),
    "B11":  dict(backend="back11", policy="rt", dispatch="fold",  queue="deque"),
    "M":    dict(backend="mp11",   policy="rt", dispatch="fold",  queue="deque"),
    "MA":   dict(backend="mp11",   policy="rt", dispatch="array", queue="deque"),
    "MC":   dict(backend="mp11",   policy="ct", dispatch="fold",  queue="deque"),
}


def variant_of(name):
    """'B', 'M+p2' (switch policy override), 'B+feR' (front-end override) ..."""
    parts = name.split("+")
    v = dict(VARIANTS[parts[0]])
    v["name"] = name
    v["switch"] = None
    v["front"] = "functor"
    v["hist"] = None
    for p in parts[1:]:
        if p.startswith("p"):
            v["switch"] = int(p[1:])
        elif p.startswith("fe"):
            v["front"] = p[2:]
        elif p.startswith("h"):
            v["hist"] = p[1:]
        else:
            raise ValueError("bad variant suffix " + p)
    return v


SWITCH_NAMES = ["active_state_switch_after_entry", "active_state_switch_after_transition_action",
                "active_state_switch_after_exit", "active_state_switch_before_transition"]


def ns_of(vname):
    return "v_" + vname.replace("+", "_")


# ------------------------------------------------------------------------------------------ helpers
def guard_cpp(e):
    if e[0] == "leaf":
        return "Grd%d" % e[1]
    if e[0] == "not":
        return "msm::front::Not_<%s >" % guard_cpp(e[1])
    op = "And_" if e[0] == "and" else "Or_"
    return "msm::front::%s<%s, %s >" % (op, guard_cpp(e[1]), guard_cpp(e[2]))


class Emitter(object):
    def __init__(self, n, vname):
        self.n = n
        self.v = variant_of(vname)
        self.vname = vname
        self.mp = self.v["backend"] == "mp11"
        self.out = []

    def w(self, s=""):
        self.out.append(s)

    # ---- names
    def lst(self, items):
        if self.mp:
            return "boost::mp11::mp_list<%s >" % ", ".join(items)
        return "boost::mpl::vector<%s >" % ", ".join(items)

    def fe(self, M):
        return M["name"] + "_"

    def be(self, M):
        return M["name"]

    def state_type(self, s):
        S = self.n.states[s]
        if S["kind"] == SK["sub"]:
            return self.be(self.n.machines[S["sub"]])
        return S["name"]

    def qual(self, rowM, s, wrapper):
        """type naming inner state s of the sub-machine (as seen from the parent's table)"""
        S = self.n.states[s]
        subM = self.n.machines[S["machine"]]
        return "%s::%s<%s >" % (self.be(subM), wrapper, S["name"])

    def switch_policy(self, M):
        p = self.v["switch"] if self.v["switch"] is not None else M["switch"]
        return p

    # ---- guard expression as C++ code over hooks (basic / row2 front-ends: the expression lives in user code)
    def guard_code(self, e):
        if e[0] == "leaf":
            return "sim::hook_guard(%d, e, f)" % e[1]
        if e[0] == "not":
            return "!(%s)" % self.guard_code(e[1])
        op = " && " if e[0] == "and" else " || "
        return "(%s%s%s)" % (self.guard_code(e[1]), op, self.guard_code(e[2]))

    def guard_puml(self, e, top=True):
        """PlantUML guard text with C++ precedence, minimal parentheses"""
        if e[0] == "leaf":
            return "g%d" % e[1]
        if e[0] == "not":
            inner = self.guard_puml(e[1], False)
            return "!" + (inner if e[1][0] == "leaf" else "(" + inner + ")")
        if e[0] == "and":
            parts = []
            for x in e[1:]:
                t = self.guard_puml(x, False)
                parts.append("(" + t + ")" if x[0] == "or" else t)
            return " && ".join(parts)
        return " || ".join(self.guard_puml(x, False) for x in e[1:])

    def row_basic(self, R):
        """basic (member function pointer) rows; the functions are emitted by emit_row_functions"""
        n = self.n
        M = n.machines[R["machine"]]
        fe = self.fe(M)
        ev = self.trigger_cpp(R)
        rid = R["id"]
        has_a = bool(R["actions"])
        has_g = R["guard"] is not None
        r2 = self.v["front"] == "R2"
        owner = self.state_type(R["src"]) if r2 else fe
        a = "&%s::act_r%d" % (owner, rid)
        g = "&%s::grd_r%d" % (owner, rid)
        if r2:
            a = "%s, %s" % (owner, a)
            g = "%s, %s" % (owner, g)
        sfx = "2" if r2 else ""
        srct = self.state_type(R["src"])
        if R["tkind"] == TK_NONE:
            kind = {(True, True): "irow", (True, False): "a_irow", (False, True): "g_irow", (False, False): "_irow"}[(has_a, has_g)]
            args = [srct, ev] + ([a] if has_a else []) + ([g] if has_g else [])
        else:
            kind = {(True, True): "row", (True, False): "a_row", (False, True): "g_row", (False, False): "_row"}[(has_a, has_g)]
            args = [srct, ev, self.state_type(R["tgts"][0])] + ([a] if has_a else []) + ([g] if has_g else [])
        if r2 and kind != "_irow":
            return "msm::front::%s%s<%s >" % (kind, sfx, ", ".join(args))
        return "%s<%s >" % (kind, ", ".join(args))

    def emit_row_function_decls(self, owner_rows):
        w = self.w
        for R in owner_rows:
            ev = self.trigger_cpp(R)
            if R["actions"]:
                w("  void act_r%d(%s const& e);" % (R["id"], ev))
            if R["guard"] is not None:
                w("  bool grd_r%d(%s const& e);" % (R["id"], ev))

    def emit_row_function_defs(self, M):
        n, w = self.n, self.w
        be = self.be(M)
        r2 = self.v["front"] == "R2"
        for rid in M["rows"]:
            R = n.rows[rid]
            ev = self.trigger_cpp(R)
            owner = self.state_type(R["src"]) if r2 else self.fe(M)
            get_f = "%s& f = *static_cast<%s*>(sim_fsm);" % (be, be) if r2 else "%s& f = static_cast<%s&>(*this);" % (be, be)
            if R["actions"]:
                body = " ".join("sim::hook_action(%d, e, f);" % a for a in R["actions"])
                w("inline void %s::act_r%d(%s const& e) { %s %s }" % (owner, R["id"], ev, get_f, body))
            if R["guard"] is not None:
                w("inline bool %s::grd_r%d(%s const& e) { %s return %s; }" % (owner, R["id"], ev, get_f, self.guard_code(R["guard"])))

    # ---- rows (functor front-end)
    def row_cpp(self, R):
        n = self.n
        M = n.machines[R["machine"]]
        if self.v["front"] in ("R", "R2") and R["table"] == 0:
            return self.row_basic(R)
        ev = self.trigger_cpp(R)
        act = self.actions_cpp(R["actions"])
        grd = guard_cpp(R["guard"]) if R["guard"] else "msm::front::none"
        if R["table"] == 1:
            return "msm::front::Internal<%s, %s, %s >" % (ev, act, grd)
        src = n.states[R["src"]]
        if R["src"] != R["src_owner"]:
            srct = self.qual(M, R["src"], "exit_pt")
        else:
            srct = self.state_type(R["src"])
        if R["table"] == 2:
            return "msm::front::Internal<%s, %s, %s >" % (ev, act, grd)
        if R["tkind"] == TK_NONE:
            tgt = "msm::front::none"
        elif R["tkind"] == TK_STATE:
            tgt = self.state_type(R["tgts"][0])
        elif R["tkind"] == TK_DIRECT:
            tgt = self.qual(M, R["tgts"][0], "direct")
        elif R["tkind"] == TK_ENTRY_PT:
            tgt = self.qual(M, R["tgts"][0], "entry_pt")
        else:
            tgt = self.lst([self.qual(M, t, "direct") for t in R["tgts"]])
        return "msm::front::Row<%s, %s, %s, %s, %s >" % (srct, ev, tgt, act, grd)

    def trigger_cpp(self, R):
        if R["trigger"] == TRIG_COMPLETION:
            return "msm::front::none"
        if R["trigger"] == TRIG_KLEENE:
            return "std::any" if self.mp else "boost::any"
        return self.n.events[R["trigger"]]["name"]

    def actions_cpp(self, acts):
        if not acts:
            return "msm::front::none"
        names = ["msm::front::Defer" if a < 0 else "Act%d" % a for a in acts]
        if len(names) == 1:
            return names[0]
        return "msm::front::ActionSequence_<boost::mpl::vector<%s > >" % ", ".join(names)

    # ---- emission
    def emit(self):
        n, v, w = self.n, self.v, self.w
        ns = ns_of(self.vname)
        w("// generated by gen/emit.py -- spec %s, variant %s.  Do not edit." % (n.name, self.vname))
        w("#define BOOST_MPL_CFG_NO_PREPROCESSED_HEADERS")
        w("#define BOOST_MPL_LIMIT_VECTOR_SIZE 50")
        w("#define BOOST_MPL_LIMIT_MAP_SIZE 50")
        w("#define FUSION_MAX_VECTOR_SIZE 20")
        w("#define BOOST_ENABLE_ASSERT_HANDLER")
        w("#include <boost/assert.hpp>")
        if v["backend"] == "back":
            w("#include <boost/msm/back/state_machine.hpp>")
            w("#include <boost/msm/back/favor_compile_time.hpp>")
            w("#include <boost/msm/back/queue_container_circular.hpp>")
            w("namespace msmb = boost::msm::back;")
        elif v["backend"] == "back11":
            w("#include <boost/msm/back11/state_machine.hpp>")
            w("#include <boost/msm/back/queue_container_circular.hpp>")
            w("namespace msmb = boost::msm::back11;")
        else:
            w("#include <boost/msm/backmp11/state_machine.hpp>")
            w("#include <boost/msm/backmp11/favor_compile_time.hpp>")
            w("namespace msmb = boost::msm::backmp11;")
        w("#include <boost/fusion/mpl.hpp>")
        w("#include <boost/fusion/include/mpl.hpp>")
        w("#include <boost/msm/front/state_machine_def.hpp>")
        w("#include <boost/msm/front/functor_row.hpp>")
        w("#include <boost/msm/front/row2.hpp>")
        w("#include <boost/msm/front/operator.hpp>")
        w("#include <boost/msm/front/history_policies.hpp>")
        if v["front"] == "E":
            w("#include <boost/msm/front/euml/euml.hpp>")
        self.ser = bool(n.spec.get("serialize", False)) and not self.mp
        if self.ser:
            w("#include <boost/archive/text_oarchive.hpp>")
            w("#include <boost/archive/text_iarchive.hpp>")
            w("#include <boost/archive/binary_oarchive.hpp>")
            w("#include <boost/archive/binary_iarchive.hpp>")
        w("#include <sstream>")
        if self.mp:
            w("#define SIM_MP11 1")
        w("#include <boost/mpl/bool.hpp>")
        w('#include "sim/hooks.hpp"')
        w('#include "sim/imachine.hpp"')
        w('#include "sim/adapter_util.hpp"')
        w("namespace msm = boost::msm;")
        if v["front"] == "P":
            self.emit_puml_front(ns)
            w("namespace %s {" % ns)
            self.emit_adapter()
            w("} // namespace %s" % ns)
            self.emit_global()
            return "\n".join(x for x in self.out if x is not None) + "\n"
        w("namespace %s {" % ns)
        self.emit_events()
        self.emit_behaviours()
        # machines children first
        for M in reversed(n.machines):
            self.emit_machine(M)
        self.emit_adapter()
        w("} // namespace %s" % ns)
        self.emit_global()
        return "\n".join(x for x in self.out if x is not None) + "\n"

    def emit_events(self):
        n, w = self.n, self.w
        w("struct EvBase { int32_t occ; uint32_t chk; };")
        for i, e in enumerate(n.events):
            if e["exit"]:
                # the event forwarded by an exit point is a different class, merely *convertible* from the
                # inner events (as the documentation requires) and deliberately laid out differently
                w("struct %s {" % e["name"])
                w("  uint64_t marker = 0x5a5a5a5a5a5a5a5aull; int32_t occ; uint32_t chk; uint64_t tail = 0xa5a5a5a5a5a5a5a5ull;")
            elif e["size_class"]:
                self.emit_storage_event(i, e)
                continue
            else:
                base = e["base"] if e["base"] else "EvBase"
                if self.v["front"] == "E":
                    base += ", msm::front::euml::euml_event<%s >" % e["name"]
                w("struct %s : %s {" % (e["name"], base))
            w("  static constexpr int SIM_EV = %d;" % i)
            w("  %s() { occ = sim::OCC_UNKNOWN; chk = 0; }" % e["name"])
            w("  explicit %s(int32_t o) { occ = o; chk = sim::chk_of_occ(o); }" % e["name"])
            if e["exit"]:
                w("  template <class E, class = std::enable_if_t<std::is_base_of_v<EvBase, E>>>")
                w("  %s(E const& e) { occ = e.occ; chk = e.chk; }" % e["name"])
            w("};")
        if self.v["front"] == "E":
            for e in n.events:
                w("static %s const e_%s;" % (e["name"], e["name"]))
        # any probing + posting: found through ADL on the fsm type
        w("template <class Any, class F> inline sim::EvInfo sim_probe_any(const Any& a, F*) {")
        w("  sim::EvInfo i;")
        w("  using boost::any_cast; using std::any_cast;")
        # most derived first so that a derived event is not reported as its base
        order = sorted(range(len(n.events)), key=lambda k: -self.depth_of_event(k))
        for k in order:
            e = n.events[k]
            w("  if (auto p = any_cast<%s>(&a)) { i.occ = p->occ; i.chk = p->chk; i.type = i.dyn = %d; return i; }"
              % (e["name"], k))
        w("  return i;")
        w("}")

    def emit_storage_event(self, i, e):
        """event classes of the storage family (C20): size / alignment / copy and move traits"""
        w = self.w
        n = e["name"]
        c = e["size_class"]
        # 1: big trivially copyable   2: non-trivial copy + dtor (tracked)   3: potentially-throwing move (tracked, heap in backmp11)
        # 4: self-referential (tracked)   5: 512 bytes, alignas(64) (tracked)   6: 1-byte payload beyond the header, odd size (tracked)
        # 7: user-provided copy constructor, defaulted (trivial) move constructor, trivial destructor, small: not trivially copyable but
        #    trivially move-constructible (third seeded defect C20); not instance-counted (its destructor must stay trivial)
        npad = {1: 192, 2: 24, 3: 40, 4: 16, 5: 448, 6: 1, 7: 12}[c]
        align = "alignas(64) " if c == 5 else ""
        w("struct %s%s : EvBase {" % (align, n))
        w("  static constexpr int SIM_EV = %d;" % i)
        w("  unsigned char pad[%d];" % npad)
        if c == 4:
            w("  const unsigned char* self;")
        w("  void fill() { for (unsigned k = 0; k < sizeof pad; ++k) pad[k] = (unsigned char)((chk >> ((k & 3) * 8)) ^ (k * 7 + 1)); }")
        w("  bool pad_ok() const { for (unsigned k = 0; k < sizeof pad; ++k) if (pad[k] != (unsigned char)((chk >> ((k & 3) * 8)) ^ (k * 7 + 1))) return false; return true; }")
        if c == 1:
            w("  %s() { occ = sim::OCC_UNKNOWN; chk = 0; fill(); }" % n)
            w("  explicit %s(int32_t o) { occ = o; chk = sim::chk_of_occ(o); fill(); }" % n)
            w("  bool sim_verify() const { return pad_ok(); }")
        elif c == 7:
            w("  %s() { occ = sim::OCC_UNKNOWN; chk = 0; fill(); }" % n)
            w("  explicit %s(int32_t o) { occ = o; chk = sim::chk_of_occ(o); fill(); }" % n)
            w("  %s(const %s& o) : EvBase(o) { for (unsigned k = 0; k < sizeof pad; ++k) pad[k] = o.pad[k]; }" % (n, n))
            w("  %s(%s&&) = default;" % (n, n))
            w("  %s& operator=(const %s& o) { occ = o.occ; chk = o.chk; for (unsigned k = 0; k < sizeof pad; ++k) pad[k] = o.pad[k]; return *this; }" % (n, n))
            w("  bool sim_verify() const { return pad_ok(); }")
        else:
            selfinit = " self = pad;" if c == 4 else ""
            w("  %s() { occ = sim::OCC_UNKNOWN; chk = 0; fill();%s sim::registry().ctor(this, occ); }" % (n, selfinit))
            w("  explicit %s(int32_t o) { occ = o; chk = sim::chk_of_occ(o); fill();%s sim::registry().ctor(this, occ); }" % (n, selfinit))
            w("  %s(const %s& o) : EvBase(o) { for (unsigned k = 0; k < sizeof pad; ++k) pad[k] = o.pad[k];%s sim::registry().ctor(this, occ); }" % (n, n, selfinit))
            if c == 3:
                w("  %s(%s&& o) noexcept(false) : EvBase(o) { for (unsigned k = 0; k < sizeof pad; ++k) pad[k] = o.pad[k]; sim::registry().ctor(this, occ); }" % (n, n))
            elif c == 4:
                w("  %s(%s&& o) noexcept : EvBase(o) { for (unsigned k = 0; k < sizeof pad; ++k) pad[k] = o.pad[k]; self = pad; sim::registry().ctor(this, occ); }" % (n, n))
            w("  %s& operator=(const %s& o) { occ = o.occ; chk = o.chk; for (unsigned k = 0; k < sizeof pad; ++k) pad[k] = o.pad[k]; return *this; }" % (n, n))
            w("  ~%s() { sim::registry().dtor(this); }" % n)
            extra = " && self == pad" if c == 4 else ""
            w("  bool sim_verify() const { return sim::registry().is_live(this) && pad_ok()%s; }" % extra)
        w("};")

    def depth_of_event(self, k):
        d = 0
        while self.n.events[k]["base_idx"] >= 0:
            k = self.n.events[k]["base_idx"]
            d += 1
        return d

    def emit_behaviours(self):
        n, w = self.n, self.w
        eu = self.v["front"] == "E"
        for g in range(n.nleaves):
            w("struct Grd%d%s {" % (g, (" : msm::front::euml::euml_action<Grd%d >" % g) if eu else ""))
            w("  template <class E, class F, class S, class T> bool operator()(E const& e, F& f, S&, T&) const"
              " { return sim::hook_guard(%d, e, f); }" % g)
            w("  template <class E, class F, class S> bool operator()(E const& e, F& f, S&) const"
              " { return sim::hook_guard(%d, e, f); }" % g)
            w("};")
        for a in range(n.nactions):
            w("struct Act%d%s {" % (a, (" : msm::front::euml::euml_action<Act%d >" % a) if eu else ""))
            w("  template <class E, class F, class S, class T> void operator()(E const& e, F& f, S&, T&) const"
              " { sim::hook_action(%d, e, f); }" % a)
            w("  template <class E, class F, class S> void operator()(E const& e, F& f, S&) const"
              " { sim::hook_action(%d, e, f); }" % a)
            w("};")
        if eu:
            for g in range(n.nleaves):
                w("static Grd%d const g_%d;" % (g, g))
            for a in range(n.nactions):
                w("static Act%d const a_%d;" % (a, a))
        for f in n.flags:
            w("struct %s {};" % f)
        w("#define SIM_STATE_BODY(SITE) SIM_STATE_BODY2(SITE, false)")
        w("#define SIM_STATE_BODY2(SITE, MASK) \\")
        w("  template <class E, class F> void on_entry(E const& e, F& f) { sim::hook_entry(SITE, e, f, this, MASK); } \\")
        w("  template <class E, class F> void on_exit(E const& e, F& f) { sim::hook_exit(SITE, e, f, this, MASK); } \\")
        w("  static constexpr int SIM_SITE = SITE; \\")
        w("  int sim_data = 0; \\")
        w("  template <class Ar> void serialize(Ar& ar, const unsigned int) { ar & sim_data; }")

    def emit_state(self, S):
        n, w = self.n, self.w
        k = S["kind"]
        if k == SK["sub"]:
            return
        smptr = S.get("smptr") and not self.mp and k == SK["simple"] and self.v["front"] not in ("R2", "E")
        if k == SK["simple"]:
            # sm_ptr policy (back / back11): the state is handed a pointer to its machine
            bases = "msm::front::state<msm::front::default_base_state, msm::front::sm_ptr>" if smptr else "msm::front::state<>"
            if S["explicit"]:
                bases += ", msm::front::explicit_entry<%d>" % S["region"]
        elif k == SK["terminate"]:
            bases = "msm::front::terminate_state<>"
        elif k == SK["interrupt"]:
            evs = [n.events[e]["name"] for e in S["end_events"]]
            bases = "msm::front::interrupt_state<%s >" % (evs[0] if len(evs) == 1 else
                                                         "boost::mpl::vector<%s >" % ", ".join(evs))
        elif k == SK["entry_pt"]:
            bases = "msm::front::entry_pseudo_state<%d>" % S["region"]
        elif k == SK["exit_pt"]:
            bases = "msm::front::exit_pseudo_state<%s >" % n.events[S["exit_event"]]["name"]
        if self.v["front"] == "E":
            bases += ", msm::front::euml::euml_state<%s >" % S["name"]
        w("struct %s : %s {" % (S["name"], bases))
        if self.v["front"] == "R2":
            # row2: guards / actions are member functions of the source state; the state remembers its machine
            w("  void* sim_fsm = nullptr;")
            w("  template <class E, class F> void on_entry(E const& e, F& f) { sim_fsm = &f; sim::hook_entry(%d, e, f, this); }" % S["index"])
            w("  template <class E, class F> void on_exit(E const& e, F& f) { sim::hook_exit(%d, e, f, this); }" % S["index"])
            w("  static constexpr int SIM_SITE = %d; int sim_data = 0;" % S["index"])
            w("  template <class Ar> void serialize(Ar& ar, const unsigned int) { ar & sim_data; }")
            self.emit_row_function_decls([n.rows[r] for r in n.machines[S["machine"]]["rows"] if n.rows[r]["src"] == S["index"]])
        elif smptr:
            # the pointer the library stored must belong to the replica this state object lives in (C15): otherwise the
            # behaviours report the machine it points to as "self"
            w("  const void* sim_sm = nullptr;")
            w("  template <class Fsm> void set_sm_ptr(Fsm* p) { sim_sm = p; }")
            w("  const void* sim_who() const { auto& en = sim::env(); return (sim_sm && en.replica_of(sim_sm) != en.replica_of(this)) ? sim_sm : (const void*)this; }")
            w("  template <class E, class F> void on_entry(E const& e, F& f) { sim::hook_entry(%d, e, f, sim_who()); }" % S["index"])
            w("  template <class E, class F> void on_exit(E const& e, F& f) { sim::hook_exit(%d, e, f, sim_who()); }" % S["index"])
            w("  static constexpr int SIM_SITE = %d; int sim_data = 0;" % S["index"])
            w("  template <class Ar> void serialize(Ar& ar, const unsigned int) { ar & sim_data; }")
        else:
            w("  SIM_STATE_BODY(%d)" % S["index"])
        if S["has_data"]:
            w("  typedef int do_serialize;")
        if S["flags"]:
            w("  typedef %s flag_list;" % self.lst(S["flags"]))
        if S["deferred"]:
            w("  typedef %s deferred_events;" % self.lst([n.events[e]["name"] for e in S["deferred"]]))
        if S["irows"] and self.v["front"] == "E":
            w("  BOOST_MSM_EUML_DECLARE_INTERNAL_TRANSITION_TABLE((")
            w(",\n".join("    " + self.row_euml(n.rows[r]) for r in S["irows"]))
            w("  ))")
        elif S["irows"]:
            w("  typedef %s internal_transition_table;" % self.lst([self.row_cpp(n.rows[r]) for r in S["irows"]]))
        if S["cond_defer"] >= 0 and self.mp:
            w("  template <class E, class F> bool is_event_deferred(E const&, F&) const { return sim::env().cond_bit(%d); }" % S["cond_defer"])
        w("};")
        if self.v["front"] == "E":
            w("static %s const s_%s;" % (S["name"], S["name"]))

    # ---- eUML: the transition table as an expression (functor front-end with an eUML table)
    def guard_euml(self, R):
        """the guard as written in the spec (own parentheses kept), over the guard instances: C++ does the precedence"""
        txt = R.get("guard_text") or ""
        return re.sub(r"g(\d+)", lambda m: "g_%s" % m.group(1), txt)

    def row_euml(self, R):
        n = self.n
        if R["trigger"] == TRIG_KLEENE or any(a < 0 for a in R["actions"]) or R["tkind"] not in (TK_NONE, TK_STATE) or R["src"] != R["src_owner"]:
            raise ValueError("row not expressible in the eUML variant")
        src = "s_%s" % n.states[R["src"]]["name"]
        left = src if R["trigger"] == TRIG_COMPLETION else "%s + e_%s" % (src, n.events[R["trigger"]]["name"])
        if R["table"] != 0:
            left = "e_%s" % n.events[R["trigger"]]["name"]
        if R["guard"]:
            left += " [%s]" % self.guard_euml(R)
        if R["actions"]:
            acts = ["a_%d" % a for a in R["actions"]]
            left += " / " + (acts[0] if len(acts) == 1 else "(" + ", ".join(acts) + ")")
        if R["table"] == 0 and R["tkind"] == TK_STATE:
            return "s_%s == %s" % (n.states[R["tgts"][0]]["name"], left)
        return left

    def emit_machine(self, M):
        n, v, w = self.n, self.v, self.w
        for s in M["states"]:
            self.emit_state(n.states[s])
        fe = self.fe(M)
        own_site = M["parent_state"] if M["parent"] >= 0 else len(n.states)
        w("struct %s : msm::front::state_machine_def<%s > {" % (fe, fe))
        w("  static constexpr int SIM_MI = %d;" % M["index"])
        w("  static constexpr int SIM_NR = %d;" % len(M["regions"]))
        w("  static constexpr bool SIM_CAN_DEFER = %s;" % ("true" if (self.mp or M["has_deferred"]) else "false"))
        w("  SIM_STATE_BODY2(%d, %s)" % (own_site, "true" if M["parent"] < 0 else "false"))
        ps = n.states[M["parent_state"]] if M["parent"] >= 0 else None
        if ps is not None:
            if ps["flags"]:
                w("  typedef %s flag_list;" % self.lst(ps["flags"]))
            if ps["deferred"]:
                w("  typedef %s deferred_events;" % self.lst([n.events[e]["name"] for e in ps["deferred"]]))
            if ps["has_data"]:
                w("  typedef int do_serialize;")
            if ps["cond_defer"] >= 0 and self.mp:
                w("  template <class E, class F> bool is_event_deferred(E const&, F&) const { return sim::env().cond_bit(%d); }" % ps["cond_defer"])
        w("  typedef %s initial_state;" % self.lst([self.state_type(r[0]) for r in M["regions"]]))
        if self.v["front"] == "R":
            self.emit_row_function_decls([n.rows[r] for r in M["rows"]])
        if self.v["front"] == "E":
            w("  BOOST_MSM_EUML_DECLARE_TRANSITION_TABLE((")
            w(",\n".join("    " + self.row_euml(n.rows[r]) for r in M["rows"]))
            w("  ), transition_table)")
            if M["irows"]:
                w("  BOOST_MSM_EUML_DECLARE_INTERNAL_TRANSITION_TABLE((")
                w(",\n".join("    " + self.row_euml(n.rows[r]) for r in M["irows"]))
                w("  ))")
        else:
            w("  typedef %s transition_table;" % self.lst([self.row_cpp(n.rows[r]) for r in M["rows"]]))
            if M["irows"]:
                w("  typedef %s internal_transition_table;" % self.lst([self.row_cpp(n.rows[r]) for r in M["irows"]]))
        if M["explicit_creation"]:
            w("  typedef %s explicit_creation;" % self.lst([self.state_type(s) for s in M["explicit_creation"]]))
        if M["activate_deferred"]:
            w("  typedef int activate_deferred_events;")
        if M.get("queue_first") and not self.mp:
            w("  typedef int event_queue_before_deferred_queue;")      # back / back11: message queue before deferred queue
        if M.get("no_queue") and not self.mp:
            w("  typedef int no_message_queue;")                       # back / back11: submissions are never stored
        pol = self.switch_policy(M)
        if pol != 0:
            w("  typedef msm::%s active_state_switch_policy;" % SWITCH_NAMES[pol])
        if self.mp:
            if M["history"] == 1:
                w("  using history = msm::front::always_shallow_history;")
            elif M["history"] == 2:
                w("  using history = msm::front::shallow_history<%s >;" %
                  ", ".join(n.events[e]["name"] for e in M["shallow_events"]))
        w("  template <class E, class F> void no_transition(E const& e, F& f, int state)"
          " { sim::hook_no_transition(e, f, state); }")
        w("  template <class E, class F> void exception_caught(E const& e, F& f, std::exception&)"
          " { sim::hook_exception_caught(e, f); }")
        w("};")
        # back-end type
        be = self.be(M)
        if self.mp:
            w("typedef sim::MpMachine<%s, SimConfig> %s;" % (fe, be))
        else:
            args = [fe]
            if M["history"] == 1:
                args.append("msm::back::AlwaysHistory")
            elif M["history"] == 2:
                args.append("msm::back::ShallowHistory<boost::mpl::vector<%s > >" %
                            ", ".join(n.events[e]["name"] for e in M["shallow_events"]))
            if v["policy"] == "ct":
                args.append("msm::back::favor_compile_time")
            if v["queue"] == "circ":
                args.append("msm::back::queue_container_circular")
            if v["backend"] == "back11" and len(args) > 1:
                args.insert(1, "void")      # back11: the second template parameter is the upper fsm
            w("typedef msmb::state_machine<%s > %s;" % (", ".join(args), be))
        if self.v["front"] in ("R", "R2"):
            self.emit_row_function_defs(M)

    def emit_puml_front(self, ns):
        """PlantUML front-end: the machine is a text; events / actions / guards / states / flags are looked up by name.
        Names get a per-variant suffix so that the explicit specialisations of different variants never collide."""
        n, v, w = self.n, self.v, self.w
        import random
        import zlib
        rnd = random.Random(zlib.crc32((n.name + "/" + self.vname + "/" + str(n.spec.get("puml_seed", 0))).encode()))
        if len(n.machines) != 1:
            raise ValueError("the PlantUML variant supports flat machines only")
        M = n.machines[0]
        sfx = "_" + ns
        self.puml_sfx = sfx
        w("#include <boost/msm/front/puml/puml.hpp>")
        w("namespace %s { struct EvBase { int32_t occ; uint32_t chk; }; }" % ns)
        w("#define SIM_STATE_BODY(SITE) \\")
        w("  template <class E, class F> void on_entry(E const& e, F& f) { sim::hook_entry(SITE, e, f, this, false); } \\")
        w("  template <class E, class F> void on_exit(E const& e, F& f) { sim::hook_exit(SITE, e, f, this, false); } \\")
        w("  static constexpr int SIM_SITE = SITE; int sim_data = 0;")
        w("namespace boost::msm::front::puml {")
        for i, e in enumerate(n.events):
            w('template <> struct Event<by_name("%s%s")> : %s::EvBase {' % (e["name"], sfx, ns))
            w("  static constexpr int SIM_EV = %d;" % i)
            w("  Event() { occ = sim::OCC_UNKNOWN; chk = 0; }")
            w("  explicit Event(int32_t o) { occ = o; chk = sim::chk_of_occ(o); }")
            w("};")
        for g in range(n.nleaves):
            w('template <> struct Guard<by_name("g%d%s")> {' % (g, sfx))
            w("  template <class E, class F, class S, class T> bool operator()(E const& e, F& f, S&, T&) const { return sim::hook_guard(%d, e, f); }" % g)
            w("};")
        for a in range(n.nactions):
            w('template <> struct Action<by_name("a%d%s")> {' % (a, sfx))
            w("  template <class E, class F, class S, class T> void operator()(E const& e, F& f, S&, T&) const { sim::hook_action(%d, e, f); }" % a)
            w("};")
        for f in n.flags:
            w('template <> struct Flag<by_name("%s%s")> {};' % (f, sfx))
        # states: even index -> explicit specialisation with hooks; odd index -> entry / exit / flag text lines
        self.puml_text_states = set()
        for sidx in M["states"]:
            S = n.states[sidx]
            if S["kind"] not in (SK["simple"], SK["terminate"]):
                raise ValueError("PlantUML variant: only simple / terminate states")
            by_text = (sidx % 2 == 1) or S["kind"] == SK["terminate"]
            if by_text:
                self.puml_text_states.add(sidx)
                w('template <> struct Action<by_name("en_%s%s")> {' % (S["name"], sfx))
                w("  template <class E, class F, class S, class T> void operator()(E const& e, F& f, S& s, T&) const { sim::hook_entry(%d, e, f, &s, false); }" % sidx)
                w("};")
                w('template <> struct Action<by_name("ex_%s%s")> {' % (S["name"], sfx))
                w("  template <class E, class F, class S, class T> void operator()(E const& e, F& f, S& s, T&) const { sim::hook_exit(%d, e, f, &s, false); }" % sidx)
                w("};")
            else:
                w('template <> struct State<by_name("%s%s")> : public boost::msm::front::state<> {' % (S["name"], sfx))
                w("  SIM_STATE_BODY(%d)" % sidx)
                if S["flags"]:
                    w("  typedef boost::fusion::vector<%s > flag_list;" % ", ".join('Flag<by_name("%s%s")>' % (f, sfx) for f in S["flags"]))
                w("};")
        w("} // namespace boost::msm::front::puml")
        w("namespace %s {" % ns)
        w("using namespace boost::msm::front::puml;")
        for e in n.events:
            w('using %s = Event<by_name("%s%s")>;' % (e["name"], e["name"], sfx))
        for f in n.flags:
            w('using %s = Flag<by_name("%s%s")>;' % (f, f, sfx))
        w("template <class Any, class F> inline sim::EvInfo sim_probe_any(const Any& a, F*) {")
        w("  sim::EvInfo i; using boost::any_cast; using std::any_cast;")
        for k, e in enumerate(n.events):
            w("  if (auto p = any_cast<%s>(&a)) { i.occ = p->occ; i.chk = p->chk; i.type = i.dyn = %d; return i; }" % (e["name"], k))
        w("  return i;")
        w("}")
        # the text, with seeded formatting noise
        def sp(lo=1, hi=4):
            return "".join(rnd.choice([" ", " ", "\t"]) for _ in range(rnd.randint(lo, hi)))
        def arrow():
            return "-" * rnd.randint(1, 4) + ">"
        lines = []
        for reg in M["regions"]:
            lines.append("[*]%s%s%s%s%s" % (sp(0, 2), arrow(), sp(0, 3), n.states[reg[0]]["name"] + sfx, sp(0, 2)))
        body = []
        for rid in M["rows"]:
            R = n.rows[rid]
            src = n.states[R["src"]]["name"] + sfx
            tgt = src if R["tkind"] == TK_NONE else n.states[R["tgts"][0]]["name"] + sfx
            if R["trigger"] == TRIG_COMPLETION:
                ev = ""
            elif R["trigger"] == TRIG_KLEENE:
                ev = "*"
            else:
                ev = n.events[R["trigger"]]["name"] + sfx
            if R["tkind"] == TK_NONE:
                ev = "-" + ev
            acts = ("," + sp(0, 2)).join(("defer" if a < 0 else "a%d%s" % (a, sfx)) for a in R["actions"])
            # the guard text as written in the spec (parentheses included), leaves renamed
            import re as _re
            grd = _re.sub(r"g(\d+)", lambda m: "g%s%s" % (m.group(1), sfx), R["guard_text"]) if R["guard"] else ""
            apart = ("/" + sp(0, 2) + acts) if acts else ""
            gpart = ("[" + sp(0, 1) + grd + sp(0, 1) + "]") if grd else ""
            parts = [apart, gpart]
            if apart and gpart and rnd.random() < 0.5:
                parts = [gpart, apart]          # the relative order of '/ actions' and '[guard]' is free
            line = "%s%s%s%s%s%s:%s%s%s%s%s%s" % (src, sp(), arrow(), sp(), tgt, sp(), sp(0, 2), ev, sp(), parts[0], sp(), parts[1])
            body.append(line.rstrip())
        extra = []
        for sidx in M["states"]:
            S = n.states[sidx]
            nm = S["name"] + sfx
            if sidx in self.puml_text_states:
                extra.append("%s%s:%sentry%sen_%s" % (nm, sp(), sp(), sp(), nm))
                extra.append("%s%s:%sexit%sex_%s" % (nm, sp(), sp(), sp(), nm))
                for f in S["flags"]:
                    extra.append("%s%s:%sflag%s%s%s" % (nm, sp(), sp(), sp(), f, sfx))
            if S["kind"] == SK["terminate"]:
                extra.append("%s%s%s%s[*]" % (nm, sp(), arrow(), sp()))
        # rows keep their order (it is the priority); state lines are sprinkled in between
        allrows = list(body)
        for x in extra:
            allrows.insert(rnd.randint(0, len(allrows)), x)
        text = ["@startuml " + M["name"], "skinparam linetype polyline", "state " + M["name"] + "{"] + lines + allrows + ["}", "@enduml"]
        fe = self.fe(M)
        w("struct %s : msm::front::state_machine_def<%s > {" % (fe, fe))
        w("  static constexpr int SIM_MI = 0;")
        w("  static constexpr int SIM_NR = %d;" % len(M["regions"]))
        w("  static constexpr bool SIM_CAN_DEFER = %s;" % ("true" if (self.mp or M["has_deferred"]) else "false"))
        w("  template <class E, class F> void on_entry(E const& e, F& f) { sim::hook_entry(%d, e, f, this, true); }" % len(n.states))
        w("  template <class E, class F> void on_exit(E const& e, F& f) { sim::hook_exit(%d, e, f, this, true); }" % len(n.states))
        w("  static constexpr int SIM_SITE = %d;" % len(n.states))
        w('  BOOST_MSM_PUML_DECLARE_TABLE(R"(')
        for t in text:
            w("    " + t)
        w('  )")')
        if M["activate_deferred"]:
            w("  typedef int activate_deferred_events;")
        pol = self.switch_policy(M)
        if pol != 0:
            w("  typedef msm::%s active_state_switch_policy;" % SWITCH_NAMES[pol])
        w("  template <class E, class F> void no_transition(E const& e, F& f, int state) { sim::hook_no_transition(e, f, state); }")
        w("  template <class E, class F> void exception_caught(E const& e, F& f, std::exception&) { sim::hook_exception_caught(e, f); }")
        w("};")
        be = self.be(M)
        if self.mp:
            w("typedef sim::MpMachine<%s, SimConfig> %s;" % (fe, be))
        else:
            args = [fe]
            if v["policy"] == "ct":
                args.append("msm::back::favor_compile_time")
            w("typedef msmb::state_machine<%s > %s;" % (", ".join(args), be))
        w("} // namespace %s" % ns)

    def guard_puml_sfx(self, e, sfx):
        import re
        return re.sub(r"g(\d+)", lambda m: "g%s%s" % (m.group(1), sfx), self.guard_puml(e))

    def emit_adapter(self):
        n, v, w = self.n, self.v, self.w
        root = n.machines[0]
        top = self.be(root)
        w("// ---- access paths to every machine of the tree")
        for M in n.machines:
            if M["parent"] < 0:
                w("inline %s& sim_m0(%s& t) { return t; }" % (top, top))
                w("inline const %s& sim_m0(const %s& t) { return t; }" % (top, top))
            else:
                be = self.be(M)
                get = "get_state<%s >()" % be if self.mp else "get_state<%s&>()" % be
                w("inline %s& sim_m%d(%s& t) { return sim_m%d(t).template %s; }" % (be, M["index"], top, M["parent"], get))
                w("inline const %s& sim_m%d(const %s& t) { return const_cast<%s&>(sim_m%d(const_cast<%s&>(t))); }"
                  % (be, M["index"], top, be, M["index"], top))
        # event dispatch helper
        w("template <class Fn> inline bool sim_with_event(int ev, int32_t occ, Fn&& fn) {")
        w("  switch (ev) {")
        for i, e in enumerate(n.events):
            w("    case %d: { %s x(occ); fn(x); return true; }" % (i, e["name"]))
        w("  }")
        w("  return false;")
        w("}")
        # posting from behaviours (found by ADL through the fsm type's template arguments)
        w("template <class F> inline void sim_do_post(F& f, const sim::Post& p) {")
        w("  switch (p.ev) {")
        for i, e in enumerate(n.events):
            if not e["postable"]:
                continue
            w("    case %d: { %s x(p.occ); sim::post_api(f, x, p.api); break; }" % (i, e["name"]))
        w("  }")
        w("}")
        w("struct Adapter : sim::IMachine {")
        w("  %s m;" % top)
        w("  Adapter() : m() { init_caps(); }")
        w("  Adapter(const Adapter& o) : m(static_cast<const %s&>(o.m)) {}" % top)
        if self.mp:
            w("  Adapter(Adapter&& o) : m(std::move(o.m)) {}")
        w("  void init_caps() {")
        if v["queue"] == "circ" and not self.mp:
            for M in n.machines:
                if not M.get("no_queue"):
                    w("    sim_m%d(m).get_message_queue().set_capacity(256);" % M["index"])
                if M["has_deferred"]:
                    w("    sim_m%d(m).get_deferred_queue().set_capacity(256);" % M["index"])
        w("  }")
        w("  void start() override { m.start(); }")
        w("  void stop() override { m.stop(); }")
        w("  int process(int ev, int32_t occ) override { int r = -1; sim_with_event(ev, occ, [&](auto& x) { r = (int)m.process_event(x); }); return r; }")
        w("  void enqueue(int ev, int32_t occ) override { sim_with_event(ev, occ, [&](auto& x) { m.enqueue_event(x); }); }")
        if self.mp or root["has_deferred"]:
            w("  void defer(int ev, int32_t occ) override { sim_with_event(ev, occ, [&](auto& x) { m.defer_event(x); }); }")
        else:
            w("  void defer(int, int32_t) override {}")
        if self.mp:
            w("  void drain() override { m.process_event_pool(); }")
            w("  void drain_one() override { m.process_event_pool(1); }")
        else:
            w("  void drain() override { m.execute_queued_events(); }")
            w("  void drain_one() override { if (m.get_message_queue_size() > 0) m.execute_single_queued_event(); }")
        w("  int sub_process(int mach, int ev, int32_t occ) override {")
        w("    int r = -1;")
        w("    switch (mach) {")
        for M in n.machines:
            w("      case %d: sim_with_event(ev, occ, [&](auto& x) { r = (int)sim_m%d(m).process_event(x); }); break;"
              % (M["index"], M["index"]))
        w("    }")
        w("    return r;")
        w("  }")
        w("  sim::IMachine* clone() const override { return new Adapter(*this); }")
        w("  void assign_from(const sim::IMachine& o) override { m = static_cast<const %s&>(static_cast<const Adapter&>(o).m); }" % top)
        if self.mp:
            w("  sim::IMachine* move_out() override { return new Adapter(std::move(*this)); }")
            w("  bool move_assign_from(sim::IMachine& o) override { m = std::move(static_cast<Adapter&>(o).m); return true; }")
        w("  void post(const sim::Post& p) override { sim_do_post(m, p); }")
        w("  void extent(const char*& lo, const char*& hi) const override { lo = (const char*)&m; hi = lo + sizeof(m); }")
        # snapshot
        w("  void snapshot(sim::Snap& s) const override {")
        w("    s.active.assign(%d, {}); s.hist.assign(%d, {}); s.qmsg.assign(%d, -1); s.qdef.assign(%d, -1);"
          " s.busy.assign(%d, -1); s.running.assign(%d, -1);" % ((len(n.machines),) * 6))
        for M in n.machines:
            i = M["index"]
            nr = len(M["regions"])
            if self.mp:
                w("    { auto& x = sim_m%d(m); for (int r = 0; r < %d; ++r) s.active[%d].push_back(x.get_active_state_ids()[r]);"
                  " s.qmsg[%d] = (int)x.sim_pending(); s.qdef[%d] = 0; }" % (i, nr, i, i, i))
            else:
                w("    { auto& x = sim_m%d(m); for (int r = 0; r < %d; ++r) s.active[%d].push_back(x.current_state()[r]);"
                  " s.qmsg[%d] = (int)x.get_message_queue_size(); s.qdef[%d] = %s; }"
                  % (i, nr, i, i, i, "(int)x.get_deferred_queue().size()" if M["has_deferred"] else "0")
                  if not M.get("no_queue") else
                  "    { auto& x = sim_m%d(m); for (int r = 0; r < %d; ++r) s.active[%d].push_back(x.current_state()[r]); s.qmsg[%d] = 0; s.qdef[%d] = %s; }"
                  % (i, nr, i, i, i, "(int)x.get_deferred_queue().size()" if M["has_deferred"] else "0"))
        w("    sim_probe(s);")
        w("  }")
        self.emit_probe()
        # flags
        w("  int flag(int mach, int flag) const override {")
        w("    switch (mach * 64 + flag) {")
        for M in n.machines:
            for fi, f in enumerate(n.flags):
                if self.mp:
                    w("      case %d: { auto& x = sim_m%d(m); return (x.template is_flag_active<%s>() ? 1 : 0) |"
                      " (x.template is_flag_active<%s, msmb::flag_and>() ? 2 : 0); }" % (M["index"] * 64 + fi, M["index"], f, f))
                else:
                    be = self.be(M)
                    w("      case %d: { auto& x = sim_m%d(m); return (x.template is_flag_active<%s>() ? 1 : 0) |"
                      " (x.template is_flag_active<%s, %s::Flag_AND>() ? 2 : 0); }" % (M["index"] * 64 + fi, M["index"], f, f, be))
        w("    }")
        w("    return -1;")
        w("  }")
        if self.mp and v["front"] != "P":
            w("  int state_active(int g) const override {")
            w("    switch (g) {")
            for S in n.states:
                w("      case %d: return m.template is_state_active<%s >() ? 1 : 0;" % (S["index"], self.state_type(S["index"])
                  if S["kind"] != SK["exit_pt"] else "%s::exit_pt<%s >" % (self.be(n.machines[S["machine"]]), S["name"])))
            w("    }")
            w("    return -1;")
            w("  }")
        if self.mp and v["front"] != "P":
            w("  bool visit(int mode, std::vector<int>& out) override {")
            w("    auto vis = [&out](auto& st) { out.push_back(std::remove_cvref_t<decltype(st)>::SIM_SITE); };")
            w("    switch (mode) {")
            w("      case 0: m.template visit<msmb::visit_mode::active_recursive>(vis); break;")
            w("      case 1: m.template visit<msmb::visit_mode::active_non_recursive>(vis); break;")
            w("      case 2: m.template visit<msmb::visit_mode::all_recursive>(vis); break;")
            w("      case 3: m.template visit<msmb::visit_mode::all_non_recursive>(vis); break;")
            w("    }")
            w("    return true;")
            w("  }")
        elif not self.mp and v["front"] != "P":
            w("  int state_by_id(int mach, int id) const override {")
            w("    switch (mach) {")
            for M in n.machines:
                w("      case %d: {" % M["index"])
                w("        auto& x = sim_m%d(m);" % M["index"])
                w("        typedef typename std::remove_cvref_t<decltype(x)>::BaseState BS;")
                w("        const BS* p = x.get_state_by_id(id);")
                w("        if (!p) return -1;")
                for sidx in M["states"]:
                    S = n.states[sidx]
                    w("        if (p == static_cast<const BS*>(&%s)) return %d;" % (self.state_ref(S), sidx))
                w("        return -3;")
                w("      }")
            w("    }")
            w("    return -2;")
            w("  }")
        # state data
        w("  int state_data(int g) const override {")
        w("    switch (g) {")
        for S in n.states:
            if S["has_data"]:
                w("      case %d: return %s.sim_data;" % (S["index"], self.state_ref(S)))
        w("    }")
        w("    return 0;")
        w("  }")
        w("  void set_state_data(int g, int val) override {")
        w("    switch (g) {")
        for S in n.states:
            if S["has_data"]:
                w("      case %d: const_cast<int&>(%s.sim_data) = val; break;" % (S["index"], self.state_ref(S)))
        w("    }")
        w("    (void)val;")
        w("  }")
        if self.ser:
            w("  bool save(int fmt, std::string& out) override {")
            w("    std::ostringstream os;")
            w("    if (fmt == 0) { boost::archive::text_oarchive oa(os); oa << m; }")
            w("    else { boost::archive::binary_oarchive oa(os); oa << m; }")
            w("    out = os.str(); return true;")
            w("  }")
            w("  bool load(int fmt, const std::string& in) override {")
            w("    std::istringstream is(in);")
            w("    if (fmt == 0) { boost::archive::text_iarchive ia(is); ia >> m; }")
            w("    else { boost::archive::binary_iarchive ia(is); ia >> m; }")
            w("    return true;")
            w("  }")
        if self.mp:
            w("  void clear_queue(int which) override { if (which == 0) m.sim_clear_pool(); }")
        if not self.mp:
            w("  void clear_queue(int which) override {")
            w("    if (which == 0) m.get_message_queue().clear();")
            if root["has_deferred"]:
                w("    if (which == 1) m.clear_deferred_queue();")
            w("  }")
        w("};")
        w("static sim::IMachine* sim_make() { return new Adapter(); }")
        w('static sim::VariantReg sim_reg("%s", &sim_make, %d, %d, "%s %s %s %s");' % (
            self.vname, 1 if self.mp else 0, -1 if v["switch"] is None else v["switch"],
            v["backend"], v["policy"], v["dispatch"], v["queue"]))

    def state_ref(self, S):
        M = self.n.machines[S["machine"]]
        if S["kind"] == SK["sub"]:
            return "sim_m%d(m)" % S["sub"]
        t = S["name"]
        if S["kind"] == SK["exit_pt"]:
            t = "%s::exit_pt<%s >" % (self.be(M), S["name"])
        if self.mp:
            return "sim_m%d(m).template get_state<%s >()" % (M["index"], t)
        return "sim_m%d(m).template get_state<%s&>()" % (M["index"], t)

    def emit_probe(self):
        """history memory / busy flag through the serialization back door"""
        n, w = self.n, self.w
        w("  void sim_probe(sim::Snap& s) const {")
        for M in n.machines:
            i = M["index"]
            if self.mp:
                w("    { auto& x = sim_m%d(m); sim::MpProbe pr; serialize(pr, const_cast<std::remove_cvref_t<decltype(x)>&>(x));"
                  " s.busy[%d] = pr.busy; s.running[%d] = pr.running; %s }" % (i, i, i, ("s.hist[%d] = pr.hist;" % i) if M["history"] else ""))
            else:
                w("    { auto& x = sim_m%d(m); sim::BackProbe pr; pr.nr = %d; const_cast<std::remove_cvref_t<decltype(x)>&>(x).serialize(pr, 0u);"
                  " s.busy[%d] = pr.busy(); %s }" % (i, len(M["regions"]), i, ("s.hist[%d] = pr.hist();" % i) if M["history"] else ""))
        w("  }")

    def emit_global(self):
        n, v, w = self.n, self.v, self.w
        ns = ns_of(self.vname)
        if v["policy"] == "ct":
            if self.mp:
                for M in n.machines:
                    w("BOOST_MSM_BACKMP11_GENERATE_STATE_MACHINE(%s::%s);" % (ns, self.be(M)))
            else:
                for M in n.machines[1:]:
                    w("BOOST_MSM_BACK_GENERATE_PROCESS_EVENT(%s::%s);" % (ns, self.be(M)))


def emit_variant(n, vname):
    e = Emitter(n, vname)
    txt = e.emit()
    if e.mp:
        v = e.v
        if v["policy"] == "ct":
            cfg = ["typedef msmb::favor_compile_time SimPolicy;"]
        else:
            cfg = ["struct SimPolicy : msmb::favor_runtime_speed {",
                   "  using dispatch_strategy = msmb::dispatch_strategy::%s;" %
                   ("function_pointer_array" if v["dispatch"] == "array" else "flat_fold"), "};"]
        cfg.append("struct SimConfig : msmb::state_machine_config { using compile_policy = SimPolicy; };")
        marker = "struct EvBase {"
        txt = txt.replace(marker, "\n".join(cfg) + "\n" + marker, 1)
    return txt


# ------------------------------------------------------------------------------------------ Desc
def cstr(s):
    return json.dumps(s)


def ivec(xs):
    return "{" + ", ".join(str(int(x)) for x in xs) + "}"


def emit_desc(n):
    out = []
    w = out.append
    w("// generated by gen/emit.py -- Desc tables for spec %s" % n.name)
    w('#include "sim/desc.hpp"')
    w("#include <cstdint>")
    w("namespace sim {")
    w("static Desc build_desc() {")
    w("  Desc d;")
    w("  d.name = %s;" % cstr(n.name))
    for e in n.events:
        w("  d.events.push_back(DEvent{%s, %d, %s, %s, %d});" % (
            cstr(e["name"]), e["base_idx"], "true" if e["postable"] else "false",
            "true" if e["external"] else "false", e["size_class"]))
    # guard nodes
    gn = []

    def add_node(e):
        if e[0] == "leaf":
            gn.append((0, e[1], -1, -1))
        elif e[0] == "not":
            a = add_node(e[1])
            gn.append((1, -1, a, -1))
        else:
            a = add_node(e[1])
            b = add_node(e[2])
            gn.append((2 if e[0] == "and" else 3, -1, a, b))
        return len(gn) - 1
    row_guard = {}
    for R in n.rows:
        row_guard[R["id"]] = add_node(R["guard"]) if R["guard"] else -1
    for g in gn:
        w("  d.gnodes.push_back(DGuardNode{%d, %d, %d, %d});" % g)
    for R in n.rows:
        w("  d.rows.push_back(DRow{%d, %d, %d, %d, %d, %d, %d, %s, %d, %d, %s});" % (
            R["machine"], R["index"], R["table"], R["src"], R["src_owner"], R["trigger"], R["tkind"],
            ivec(R["tgts"]), R["tgt_owner"], row_guard[R["id"]], ivec(R["actions"])))
    for S in n.states:
        w("  d.states.push_back(DState{%s, %d, %d, %d, %d, %d, %s, %s, %d, %s, %d, %s, %s});" % (
            cstr(S["name"]), S["machine"], S["region"], S["kind"], S["sub"], S["lib_id"], ivec(S["flag_ids"]),
            ivec(S["deferred"]), S["cond_defer"], ivec(S["end_events"]), S["exit_event"], ivec(S["irows"]),
            "true" if S["has_data"] else "false"))
        w("  d.states.back().lib_id_back = %d;" % S["lib_id_back"])
    for M in n.machines:
        regs = "{" + ", ".join(ivec(r) for r in M["regions"]) + "}"
        w("  d.machines.push_back(DMachine{%s, %d, %d, %s, %s, %s, %s, %d, %s, %d, %s, %s, %s, %s, %s});" % (
            cstr(M["name"]), M["parent"], M["parent_state"], regs, ivec(M["states"]), ivec(M["rows"]), ivec(M["irows"]),
            M["history"], ivec(M["shallow_events"]), M["switch"], "true" if M["activate_deferred"] else "false",
            "true" if M["has_deferred"] else "false", "true" if M["has_completion"] else "false",
            "true" if M["has_blocking"] else "false", "false" if M.get("no_queue") else "true"))
        w("  d.machines.back().states_back = %s;" % ivec(M["states_back"]))
        w("  d.machines.back().queue_first = %s;" % ("true" if M.get("queue_first") else "false"))
    w("  d.nleaves = %d;" % n.nleaves)
    for l in range(n.nleaves):
        w("  d.leaf_names.push_back(\"g%d\"); d.leaf_is_completion.push_back(%d);" % (l, n.leaf_is_completion[l]))
    w("  d.nactions = %d;" % n.nactions)
    for a in range(n.nactions):
        w("  d.action_names.push_back(\"a%d\");" % a)
    w("  d.nflags = %d;" % len(n.flags))
    for f in n.flags:
        w("  d.flag_names.push_back(%s);" % cstr(f))
    w("  d.serializable = %s;" % ("true" if n.spec.get("serialize") else "false"))
    w("  d.tracked = %s;" % ("true" if any(2 <= e["size_class"] <= 6 for e in n.events) else "false"))
    w("  d.spec_json = %s;" % cstr(to_json(n.spec)))
    w("  return d;")
    w("}")
    w("const Desc& desc() { static Desc d = build_desc(); return d; }")
    w("} // namespace sim")
    return "\n".join(out) + "\n"
