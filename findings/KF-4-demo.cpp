// KF-4: a sub-machine with history that was left through an exit point.  On the history re-entry back / back11 forward the
// exit event again from the entry of the restored exit point (the sub-machine is left again at once); backmp11 forwards only
// in the transition that targets the exit point and stays in the restored exit point.
#include <boost/msm/back/state_machine.hpp>
#include <boost/msm/backmp11/state_machine.hpp>
#include <boost/msm/front/state_machine_def.hpp>
#include <boost/msm/front/functor_row.hpp>
#include <cstdio>
#include <string>
namespace msm = boost::msm; namespace mpl = boost::mpl; using msm::front::Row; using msm::front::none;
struct Go {}; struct Leave {}; struct Done { Done() {} template <class E> Done(E const&) {} };
static std::string lg;
#define ST(N) struct N : msm::front::state<> { template <class Ev, class F> void on_entry(Ev const&, F&) { lg += " +" #N; } template <class Ev, class F> void on_exit(Ev const&, F&) { lg += " -" #N; } }
ST(Idle); ST(Work);
struct XP : msm::front::exit_pseudo_state<Done> { template <class Ev, class F> void on_entry(Ev const&, F&) { lg += " +XP"; } template <class Ev, class F> void on_exit(Ev const&, F&) { lg += " -XP"; } };
struct SubB_ : msm::front::state_machine_def<SubB_> {
    typedef Work initial_state;
    struct transition_table : mpl::vector<Row<Work, Leave, XP, none, none>> {};
};
typedef msm::back::state_machine<SubB_, msm::back::AlwaysHistory> SubB;
struct TopB_ : msm::front::state_machine_def<TopB_> {
    typedef Idle initial_state;
    struct transition_table : mpl::vector<Row<Idle, Go, SubB, none, none>, Row<SubB::exit_pt<XP>, Done, Idle, none, none>> {};
    template <class F, class Ev> void no_transition(Ev const&, F&, int) { lg += " NT"; }
};
struct SubM_ : msm::front::state_machine_def<SubM_> {
    typedef Work initial_state;
    typedef msm::front::always_shallow_history history;
    typedef boost::mp11::mp_list<Row<Work, Leave, XP, none, none>> transition_table;
};
typedef msm::backmp11::state_machine<SubM_> SubM;
struct TopM_ : msm::front::state_machine_def<TopM_> {
    typedef Idle initial_state;
    typedef boost::mp11::mp_list<Row<Idle, Go, SubM, none, none>, Row<SubM::exit_pt<XP>, Done, Idle, none, none>> transition_table;
    template <class F, class Ev> void no_transition(Ev const&, F&, int) { lg += " NT"; }
};
template <class T> std::string run() {
    lg.clear(); T t; t.start();
    t.process_event(Go()); t.process_event(Leave()); lg += " |"; t.process_event(Go());
    return lg;
}
int main() {
    std::string b = run<msm::back::state_machine<TopB_>>(), m = run<msm::backmp11::state_machine<TopM_>>();
    printf("back:    %s\nbackmp11:%s\n", b.c_str(), m.c_str());
    return b == m ? 0 : 1;
}
