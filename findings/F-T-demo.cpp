// F-T: backmp11 -- an exception aborts the entry cascade of a sub-machine after a state with a completion transition was
// entered.  The armed completion occurrence stays in the sub-machine's pool; when the state is entered again later, a second
// occurrence is armed and the stale one then runs the completion transition from a state that is no longer active
// (BOOST_ASSERT(state_id == current_state_id); with assertions off: the state is exited twice, the target entered twice).
#define BOOST_DISABLE_ASSERTS
#include <boost/msm/backmp11/state_machine.hpp>
#include <boost/msm/front/state_machine_def.hpp>
#include <boost/msm/front/functor_row.hpp>
#include <cstdio>
#include <stdexcept>
#include <string>
namespace msm = boost::msm; using msm::front::Row; using msm::front::none;
struct Re {}; struct Tick {};
static std::string lg; static bool fail_entry = false, ready = false;
#define ST(N) struct N : msm::front::state<> { template <class Ev, class F> void on_entry(Ev const&, F&) { lg += " +" #N; } template <class Ev, class F> void on_exit(Ev const&, F&) { lg += " -" #N; } }
ST(P); ST(Q);
struct U : msm::front::state<> {
    template <class Ev, class F> void on_entry(Ev const&, F&) { lg += " +U"; if (fail_entry) throw std::runtime_error("U"); }
    template <class Ev, class F> void on_exit(Ev const&, F&) { lg += " -U"; }
};
struct Ready { template <class Ev, class F, class S, class T> bool operator()(Ev const&, F&, S&, T&) const { return ready; } };
struct Sub_ : msm::front::state_machine_def<Sub_> {
    typedef boost::mp11::mp_list<P, U> initial_state;
    typedef boost::mp11::mp_list<Row<P, none, Q, none, Ready>, Row<P, Tick, P>> transition_table;
};
typedef msm::backmp11::state_machine<Sub_> Sub;
struct Top_ : msm::front::state_machine_def<Top_> {
    typedef Sub initial_state;
    typedef boost::mp11::mp_list<Row<Sub, Re, Sub>> transition_table;
    template <class F, class Ev> void exception_caught(Ev const&, F&, std::exception&) { lg += " caught"; }
};
int main() {
    msm::backmp11::state_machine<Top_> t; t.start();
    fail_entry = true; t.process_event(Re());          // re-entry of Sub aborted by U's entry: P's completion stays armed
    fail_entry = false; ready = true; lg += " |";
    t.process_event(Tick());                            // P -> P arms a second occurrence
    printf("%s\n", lg.c_str());
    size_t n = 0, pos = 0; while ((pos = lg.find("+Q", pos)) != std::string::npos) { ++n; ++pos; }
    printf("Q entered %zu time(s) after one entry of P\n", n);
    return n == 1 ? 0 : 1;
}
