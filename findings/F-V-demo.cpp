#include <boost/msm/back/state_machine.hpp>
#include <boost/msm/front/state_machine_def.hpp>
#include <boost/msm/front/functor_row.hpp>
#include <cstdio>
#include <string>
namespace msm = boost::msm; namespace mpl = boost::mpl; using msm::front::Row; using msm::front::Internal; using msm::front::none;
struct Base { virtual ~Base() {} }; struct Derived : Base {}; struct Other {};
static std::string lg;
struct Act { template <class Ev, class F, class S, class T> void operator()(Ev const&, F&, S&, T&) { lg += " internal(Base)"; } };
struct A : msm::front::state<> {};
struct B : msm::front::state<> {};
struct Top_ : msm::front::state_machine_def<Top_> {
    typedef A initial_state;
    struct transition_table : mpl::vector<Row<A, Other, B, none, none>> {};
    struct internal_transition_table : mpl::vector<Internal<Base, Act, none>> {};
    template <class F, class Ev> void no_transition(Ev const&, F&, int) { lg += " no_transition"; }
};
int main() {
    msm::back::state_machine<Top_> t; t.start();
    t.process_event(Base()); lg += " |"; t.process_event(Derived());
    printf("%s\n", lg.c_str());
    return lg == " internal(Base) | internal(Base)" ? 0 : 1;
}
