// KF-3: back / back11 and backmp11 assign different ids to implicitly created states when the table also has
// states that occur in the Next column only.
#include <boost/msm/back/state_machine.hpp>
#include <boost/msm/backmp11/state_machine.hpp>
#include <boost/msm/backmp11/favor_compile_time.hpp>
#include <boost/msm/front/state_machine_def.hpp>
#include <boost/msm/front/functor_row.hpp>
#include <cstdio>
namespace msm = boost::msm; namespace mpl = boost::mpl; using msm::front::Row; using msm::front::none;
struct E {};
struct A : msm::front::state<> {}; struct B : msm::front::state<> {}; struct C : msm::front::state<> {};
struct Fb_ : msm::front::state_machine_def<Fb_> {
    typedef mpl::vector<A, B> initial_state;
    struct transition_table : mpl::vector<Row<A, E, C, none, none>> {};
};
struct Fm_ : msm::front::state_machine_def<Fm_> {
    typedef boost::mp11::mp_list<A, B> initial_state;
    typedef boost::mp11::mp_list<Row<A, E, C, none, none>> transition_table;
};
int main() {
    msm::back::state_machine<Fb_> b; b.start();
    msm::backmp11::state_machine<Fm_> m; m.start();
    printf("back:     regions = %d %d\n", b.current_state()[0], b.current_state()[1]);
    printf("backmp11: regions = %d %d\n", (int)m.get_active_state_ids()[0], (int)m.get_active_state_ids()[1]);
    b.process_event(E()); m.process_event(E());
    printf("after E   back = %d %d   backmp11 = %d %d\n", b.current_state()[0], b.current_state()[1], (int)m.get_active_state_ids()[0], (int)m.get_active_state_ids()[1]);
    return (b.current_state()[1] == (int)m.get_active_state_ids()[1]) ? 0 : 1;
}
