// KF-5: one event enters a state with a completion transition in each of two regions.  back runs the completion
// transitions in region order, backmp11 in reverse region order (each armed completion is pushed to the front of the pool).
#include <boost/msm/back/state_machine.hpp>
#include <boost/msm/backmp11/state_machine.hpp>
#include <boost/msm/front/state_machine_def.hpp>
#include <boost/msm/front/functor_row.hpp>
#include <cstdio>
#include <string>
namespace msm = boost::msm; namespace mpl = boost::mpl; using msm::front::Row; using msm::front::none;
struct Go {};
static std::string lg;
#define ST(N) struct N : msm::front::state<> { template <class Ev, class F> void on_entry(Ev const&, F&) { lg += " +" #N; } template <class Ev, class F> void on_exit(Ev const&, F&) { lg += " -" #N; } }
ST(A); ST(B); ST(C); ST(P); ST(Q); ST(R);
struct FB_ : msm::front::state_machine_def<FB_> {
    typedef mpl::vector<A, P> initial_state;
    struct transition_table : mpl::vector<Row<A, Go, B>, Row<B, none, C>, Row<P, Go, Q>, Row<Q, none, R>> {};
};
struct FM_ : msm::front::state_machine_def<FM_> {
    typedef boost::mp11::mp_list<A, P> initial_state;
    typedef boost::mp11::mp_list<Row<A, Go, B>, Row<B, none, C>, Row<P, Go, Q>, Row<Q, none, R>> transition_table;
};
template <class T> std::string run() { lg.clear(); T t; t.start(); lg += " |"; t.process_event(Go()); return lg; }
int main() {
    std::string b = run<msm::back::state_machine<FB_>>(), m = run<msm::backmp11::state_machine<FM_>>();
    printf("back:    %s\nbackmp11:%s\n", b.c_str(), m.c_str());
    return b == m ? 0 : 1;
}
