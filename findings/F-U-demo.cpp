#include <boost/msm/back/state_machine.hpp>
#include <boost/msm/back11/state_machine.hpp>
#include <boost/msm/front/state_machine_def.hpp>
#include <boost/msm/front/functor_row.hpp>
#include <cstdio>
#include <string>
namespace msm = boost::msm; namespace mpl = boost::mpl; using msm::front::Row; using msm::front::Internal; using msm::front::none;
struct E {}; struct F {};
static std::string lg;
struct Act { template <class Ev, class Fsm, class S, class T> void operator()(Ev const&, Fsm&, S&, T&) { lg += " P:internal(E)"; } };
struct P : msm::front::state<> { typedef mpl::vector<Internal<E, Act, none>> internal_transition_table; };
struct Q : msm::front::state<> {};
struct Sub_ : msm::front::state_machine_def<Sub_> {
    typedef P initial_state;
    struct transition_table : mpl::vector<Row<P, F, Q, none, none>> {};
};
template <class SubBE> struct Top_ : msm::front::state_machine_def<Top_<SubBE>> {
    typedef SubBE initial_state;
    struct transition_table : mpl::vector<Row<SubBE, F, SubBE, none, none>> {};
    template <class Fsm, class Ev> void no_transition(Ev const&, Fsm&, int) { lg += " no_transition"; }
};
int main() {
    typedef msm::back::state_machine<Sub_> SB; typedef msm::back11::state_machine<Sub_> S11;
    msm::back::state_machine<Top_<SB>> b; msm::back11::state_machine<Top_<S11>> b11;
    lg.clear(); b.start(); b.process_event(E()); std::string rb = lg;
    lg.clear(); b11.start(); b11.process_event(E()); std::string r11 = lg;
    printf("back:   %s\nback11: %s\n", rb.c_str(), r11.c_str());
    return rb == r11 ? 0 : 1;
}
